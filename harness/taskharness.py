"""Real Task + real Worker.run (in the calling thread) on a real queue; produces the observable event list
in the vocabulary of the Lean Task model.  Shared by C10 and C12."""
import importlib

import common

common.ensure_repo_on_path()


def gen_task(rng, allow_other=False):
    nseg = rng.choice([1, 1, 2, 3, 4])
    segs = []
    cid = [0]
    for i in range(nseg):
        regs = []
        for _ in range(rng.choice([0, 0, 1, 2, 3])):
            cid[0] += 1
            regs.append((cid[0], rng.random() < 0.6))
        last = i == nseg - 1
        if last:
            ending = rng.choice(["d", "d", "d", "e", "e"] + (["x"] if allow_other else []))
        else:
            ending = rng.choice(["yN", "y0", "y2", "y7", "yN", "y0"])
        segs.append((regs, ending))
    ids = list(range(1, cid[0] + 1))
    db = [i for i in ids if rng.random() < 0.25]
    other = [i for i in ids if allow_other and rng.random() < 0.1 and i not in db]
    return dict(key=rng.choice([1, 2]), excl=rng.random() < 0.5, requeue=rng.random() < 0.5, segs=segs, db=db, other=other)


def model_line(t):
    segs = ";".join((".".join(f"{i}{'f' if f else 'l'}" for i, f in regs) or "-") + "/" + e for regs, e in t["segs"]) or "-"
    return (f"t.run {t['key']} {int(t['excl'])} {int(t['requeue'])} {segs} "
            f"{','.join(map(str, t['db'])) or '-'} {','.join(map(str, t['other'])) or '-'}")


class _Livelock(BaseException):
    pass


def run_real(t):
    """returns the event list (strings as printed by the Lean driver) of one Worker.run() over this task"""
    import peewee as pw
    import alpenhorn.scheduler.queue as qmod
    import alpenhorn.scheduler.task as tmod
    import alpenhorn.scheduler.pool as pmod
    importlib.reload(qmod)
    events = []
    vclock = [0.0]
    def _mono():
        vclock[0] += 1e-4          # every read advances the virtual clock a little, so timed loops terminate
        return vclock[0]
    qmod.monotonic = _mono
    qmod.sleep = lambda d: None
    has_yield = any(e.startswith("y") for _, e in t["segs"])

    calls = {}

    def cleanup(cid):
        events.append(f"c{cid}")
        calls[cid] = calls.get(cid, 0) + 1
        if calls[cid] > 8:
            raise _Livelock(f"clean-up action {cid} called {calls[cid]} times")      # a BaseException: leaves Worker.run
        if cid in t["other"]:
            raise KeyError("cleanup failed")
        if cid in t["db"]:
            raise pw.OperationalError("injected")

    def body_gen(task):
        for regs, e in t["segs"]:
            for cid, first in regs:
                task.on_cleanup(cleanup, args=(cid,), first=first)
            if e == "yN":
                yield
            elif e.startswith("y"):
                yield int(e[1:])
            elif e == "d":
                return
            elif e == "e":
                raise pw.OperationalError("injected")
            else:
                raise KeyError("body failed")

    def body_plain(task):
        for regs, e in t["segs"]:
            for cid, first in regs:
                task.on_cleanup(cleanup, args=(cid,), first=first)
            if e == "e":
                raise pw.OperationalError("injected")
            if e == "x":
                raise KeyError("body failed")
            return None

    first_put = [True]

    class ObsQ(qmod.FairMultiFIFOQueue):
        __slots__ = ["worker", "stop_after"]

        def put(self, item, key, exclusive=False, wait=0):
            r = super().put(item, key, exclusive, wait)
            if first_put[0]:
                first_put[0] = False
            elif item is the_task[0]:
                events.append(f"P:{key}:{int(bool(exclusive))}:{int(wait)}")
            else:
                events.append(f"Q:{key}:{int(bool(exclusive))}")
                self.stop_after = True
            return r

        def get(self, timeout=None):
            if getattr(self, "stop_after", False):
                self.worker._worker_stop.set()
                return None
            r = super().get(timeout=0.0005)
            if r is None and self.deferred_size > 0:
                vclock[0] = min(d[0] for d in self._deferrals) + 0.001
                r = super().get(timeout=0.0005)
            if r is None:
                self.worker._worker_stop.set()
            return r

        def task_done(self, key):
            super().task_done(key)
            events.append(f"D:{key}")
    q = ObsQ()
    q.stop_after = False
    the_task = [None]
    tmod_Task = tmod.Task
    # Task binds FairMultiFIFOQueue only for typing; it calls queue.put
    the_task[0] = tmod_Task(func=body_gen if has_yield else body_plain, queue=q, key=t["key"], requeue=t["requeue"],
                            exclusive=t["excl"], name="T")
    pmod.global_abort.clear()
    w = pmod.Worker(queue=q, index=0)
    q.worker = w
    try:
        code = w.run()
    except _Livelock as ex:
        events.append(f"LIVELOCK({ex})")
        code = None
    if pmod.global_abort.is_set():
        events.append("A")
        pmod.global_abort.clear()
    if code is not None:
        events.append(f"X{code}")
    left = dict(qsize=q.qsize, inprogress=q.inprogress_size, deferred=q.deferred_size,
                locked=sorted(q._fifo_locks))
    return events, left
