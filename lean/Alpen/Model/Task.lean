/-
  Model of `alpenhorn.scheduler.task.Task` (`__call__`, `do_cleanup`, `requeue`,
  `on_cleanup`) and of the task-handling part of `alpenhorn.scheduler.pool.Worker.run`.
  A task body is abstracted as a list of *segments* (the code between two `yield`s), each
  registering clean-ups and ending in a yield, a return, or an exception.  Core Lean only.
-/
namespace Alpen

inductive SegEnd where
  | yield (v : Option Nat)     -- `yield` / `yield v`
  | done                       -- body returned (or StopIteration)
  | dbError                    -- peewee.OperationalError escaped the body
  | otherError                 -- any other exception
  deriving DecidableEq, Repr

structure Seg where
  regs : List (Nat × Bool)     -- on_cleanup(id, first?) calls made by this segment, in order
  ending : SegEnd
  deriving DecidableEq, Repr

/-- what a clean-up function does when called -/
inductive CleanBeh where
  | ok | dbError | otherError
  deriving DecidableEq, Repr

structure TaskSt where
  key : Nat
  excl : Bool
  requeueFlag : Bool
  segs : List Seg              -- remaining segments
  cleanup : List Nat           -- the deque `_cleanup`, head = left
  deriving DecidableEq, Repr

/-- observable events, in order -/
inductive TEv where
  | cleanupStarted (id : Nat)
  | reput (key : Nat) (excl : Bool) (wait : Nat)      -- queue.put(self, key, exclusive, wait)
  | taskDone (key : Nat)
  | requeued (key : Nat) (excl : Bool)                -- a fresh copy put by `requeue()`
  | abort                                             -- global_abort.set()
  | workerExit (code : Nat)
  deriving DecidableEq, Repr

def register (cl : List Nat) : List (Nat × Bool) → List Nat
  | [] => cl
  | (i, first) :: rs => register (if first then i :: cl else cl ++ [i]) rs

inductive CallRes where
  | finished | yielded | dbError | otherError
  deriving DecidableEq, Repr

/-- `do_cleanup`: pop-left and call until empty; stops at the first clean-up that raises -/
def doCleanup (beh : Nat → CleanBeh) : List Nat → List Nat × List TEv × CleanBeh
  | [] => ([], [], .ok)
  | c :: cs =>
    match beh c with
    | .ok =>
      let (rest, evs, r) := doCleanup beh cs
      (rest, .cleanupStarted c :: evs, r)
    | b => (cs, [.cleanupStarted c], b)

/-- `Task.__call__` (repaired: a yielding task keeps its exclusive flag when re-queued) -/
def taskCall (beh : Nat → CleanBeh) (t : TaskSt) : TaskSt × List TEv × CallRes :=
  match t.segs with
  | [] =>
    let (rest, evs, r) := doCleanup beh t.cleanup
    ({ t with cleanup := rest }, evs,
      match r with | .ok => .finished | .dbError => .dbError | .otherError => .otherError)
  | s :: ss =>
    let cl := register t.cleanup s.regs
    match s.ending with
    | .yield v => ({ t with segs := ss, cleanup := cl }, [.reput t.key t.excl (v.getD 0)], .yielded)
    | .done =>
      let (rest, evs, r) := doCleanup beh cl
      ({ t with segs := [], cleanup := rest }, evs,
        match r with | .ok => .finished | .dbError => .dbError | .otherError => .otherError)
    | .dbError => ({ t with segs := [], cleanup := cl }, [], .dbError)
    | .otherError => ({ t with segs := [], cleanup := cl }, [], .otherError)

/-- pinned behaviour of the yield branch: `self._queue.put(self, self._key, wait=result)` -/
def taskCallLegacy (beh : Nat → CleanBeh) (t : TaskSt) : TaskSt × List TEv × CallRes :=
  match t.segs with
  | s :: ss =>
    match s.ending with
    | .yield v => ({ t with segs := ss, cleanup := register t.cleanup s.regs }, [.reput t.key false (v.getD 0)], .yielded)
    | _ => taskCall beh t
  | [] => taskCall beh t

/-- the worker's `while True: try: task.do_cleanup(); break; except OperationalError: pass` loop
    (`fuel` ≥ number of pending clean-ups suffices: every round pops at least one) -/
def cleanupLoop (beh : Nat → CleanBeh) : Nat → List Nat → List TEv × Bool
  | 0, _ => ([], true)
  | fuel + 1, cl =>
    let (rest, evs, r) := doCleanup beh cl
    match r with
    | .ok => (evs, true)
    | .dbError => let (evs', ok) := cleanupLoop beh fuel rest; (evs ++ evs', ok)
    | .otherError => (evs, false)

/-- what `Worker.run` does with one item popped from the queue -/
def workerHandle (beh : Nat → CleanBeh) (t : TaskSt) : TaskSt × List TEv :=
  let (t', evs, r) := taskCall beh t
  match r with
  | .finished | .yielded => (t', evs ++ [.taskDone t.key])
  | .otherError => (t', evs ++ [.abort, .workerExit 1])
  | .dbError =>
    let (evs2, ok) := cleanupLoop beh (t'.cleanup.length + 1) t'.cleanup
    if ok then
      ({ t' with cleanup := [] },
        evs ++ evs2 ++ [.taskDone t.key] ++ (if t.requeueFlag then [.requeued t.key t.excl] else []) ++ [.workerExit 1])
    else ({ t' with cleanup := [] }, evs ++ evs2 ++ [.abort, .workerExit 1])

end Alpen
