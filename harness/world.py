"""Building and driving a real alpenhorn world (index + node roots + daemons) inside the harness."""
from __future__ import annotations

import hashlib
import os
import shutil

import common
import env as envmod
import verif_dbext

common.ensure_repo_on_path()


def md5(b: bytes) -> str:
    return hashlib.md5(b).hexdigest()


class FakeAbort:
    """stand-in for alpenhorn.scheduler.global_abort that lets update_loop run exactly one iteration"""

    def __init__(self, iterations=1):
        self.left = iterations
        self.really_set = False

    def is_set(self):
        if self.really_set:
            return True
        if self.left <= 0:
            return True
        self.left -= 1
        return False

    def set(self):
        self.really_set = True

    def clear(self):
        self.really_set = False

    def wait(self, timeout=None):
        return self.really_set


class World:
    def __init__(self, env: envmod.Env):
        self.env = env
        from alpenhorn import db
        self.db = db
        self.contents = {}          # file id -> bytes registered

    # ---- index builders
    def group(self, name, io_class=None, io_config=None):
        return self.db.StorageGroup.create(name=name, io_class=io_class, io_config=io_config)

    def node(self, name, group, host="h1", active=True, stype="A", init=True, marker=None, avail_kib=None, min_kib=0,
             max_kib=None, io_class=None, io_config=None, address=None, username=None, auto_verify=0, auto_import=False, root=None):
        root = root or self.env.root(name)
        n = self.db.StorageNode.create(name=name, group=group, root=root, host=host, active=active, storage_type=stype,
                                       avail_gb=None if avail_kib is None else avail_kib / 2 ** 20,
                                       min_avail_gb=min_kib / 2 ** 20,
                                       max_total_gb=None if max_kib is None else max_kib / 2 ** 20,
                                       io_class=io_class, io_config=io_config, address=address, username=username,
                                       auto_verify=auto_verify, auto_import=auto_import)
        if init:
            with open(os.path.join(root, "ALPENHORN_NODE"), "w") as f:
                f.write((marker if marker is not None else name) + "\n")
        return n

    def acq(self, name):
        return self.db.ArchiveAcq.create(name=name)

    def file(self, acq, name, content: bytes | None = b"data", size="auto", md5sum="auto"):
        if content is not None:
            sz = len(content) if size == "auto" else size
            dg = md5(content) if md5sum == "auto" else md5sum
        else:
            sz = None if size == "auto" else size
            dg = None if md5sum == "auto" else md5sum
        f = self.db.ArchiveFile.create(acq=acq, name=name, size_b=sz, md5sum=dg)
        self.contents[f.id] = content
        return f

    def put_bytes(self, node, file, data: bytes | None):
        """place (or remove) the bytes of `file` on `node`"""
        p = os.path.join(node.root, file.acq.name, file.name)
        if data is None:
            if os.path.lexists(p):
                os.remove(p)
            return p
        os.makedirs(os.path.dirname(p), exist_ok=True)
        tmp = p + ".verifnew"
        with open(tmp, "wb") as f:      # replace, never write in place: hard-linked copies on other nodes must not change
            f.write(data)
        os.replace(tmp, p)
        return p

    def copy(self, file, node, has="Y", wants="Y", on_disk="auto", ready=True, size_b="auto"):
        if on_disk == "auto":
            on_disk = self.contents.get(file.id) if has in ("Y", "M") else None
        if on_disk is not None:
            self.put_bytes(node, file, on_disk)
        sb = None
        if size_b == "auto":
            sb = 4096 if on_disk else None
        else:
            sb = size_b
        return self.db.ArchiveFileCopy.create(file=file, node=node, has_file=has, wants_file=wants, ready=ready, size_b=sb)

    def req(self, file, node_from, group_to, **kw):
        return self.db.ArchiveFileCopyRequest.create(file=file, node_from=node_from, group_to=group_to, **kw)

    def edge(self, node_from, group_to, autosync=False, autoclean=False):
        return self.db.StorageTransferAction.create(node_from=node_from, group_to=group_to, autosync=autosync, autoclean=autoclean)

    # ---- observation
    def tree(self, node):
        """path (relative to root) -> (kind, size, md5, inode)"""
        out = {}
        root = node.root
        for base, dirs, files in os.walk(root):
            rel = os.path.relpath(base, root)
            for d in dirs:
                p = os.path.normpath(os.path.join(rel, d))
                out[p + "/"] = ("dir",)
            for fn in files:
                p = os.path.normpath(os.path.join(rel, fn))
                full = os.path.join(base, fn)
                if os.path.islink(full):
                    out[p] = ("link", os.readlink(full))
                else:
                    with open(full, "rb") as f:
                        data = f.read()
                    out[p] = ("file", len(data), md5(data), os.stat(full).st_ino)
        return out

    def file_on(self, node, file):
        p = os.path.join(node.root, file.acq.name, file.name)
        if not os.path.exists(p):
            return None
        with open(p, "rb") as f:
            return f.read()


class Daemon:
    """One alpenhorn daemon (a host) driven step by step: `iterate()` runs the main thread part of one update_loop
    pass (tasks are left in the queue); `run_task()` pops and runs one task the way serial_io does."""

    def __init__(self, env, host):
        import alpenhorn.daemon.update as upd
        from alpenhorn.scheduler import FairMultiFIFOQueue, EmptyPool
        self.env = env
        self.host = host
        self.upd = upd
        self.queue = FairMultiFIFOQueue()
        self.pool = EmptyPool()

    def iterate(self):
        upd = self.upd
        self.env.set_host(self.host)
        saved = (upd.serial_io, upd.global_abort)
        upd.serial_io = lambda q: None
        upd.global_abort = FakeAbort(1)
        try:
            upd.update_loop(self.queue, self.pool, once=False)
        finally:
            upd.serial_io, upd.global_abort = saved
        return self.pending()

    def pending(self):
        q = self.queue
        out = []
        for key, fifo in q._fifos.items():
            for item, excl in fifo:
                out.append((key, str(item), excl))
        return out

    def run_task(self, timeout=0.001):
        """returns (key, task name, finished) or None"""
        self.env.set_host(self.host)
        item = self.queue.get(timeout=timeout)
        if item is None:
            return None
        task, key = item
        try:
            fin = task()
        finally:
            self.queue.task_done(key)
        return key, str(task), fin

    def drain(self, limit=500, polls=12):
        ran = []
        while limit > 0:
            r = self.run_task()
            if r is None:
                if self.queue.deferred_size and polls > 0:
                    polls -= 1        # tasks waiting for something (an HSM restore) poll a few times, then stay deferred
                    # make deferred puts due
                    import alpenhorn.scheduler.queue as qmod
                    self.queue._deferrals = [(k * 1e-9, *d[1:]) for k, d in enumerate(self.queue._deferrals)]
                    continue
                break
            ran.append(r)
            limit -= 1
        return ran


class _ThreadAbort:
    """stand-in for alpenhorn.scheduler.global_abort shared by all persistent daemons: each daemon's main-loop thread sees
    its own flag, and `wait()` (the sleep at the end of a loop iteration) hands control back to the harness"""

    def __init__(self):
        self.by_thread = {}

    def _d(self):
        import threading
        return self.by_thread.get(threading.get_ident())

    def is_set(self):
        d = self._d()
        return bool(d and d.stopping)

    def set(self):
        d = self._d()
        if d:
            d.aborted = True
            d.stopping = True

    def clear(self):
        pass

    def wait(self, timeout=None):
        d = self._d()
        if d is None:
            return False
        d.iter_done.release()
        d.go.acquire()
        return d.stopping


_ABORT = _ThreadAbort()


class PersistentDaemon(Daemon):
    """a daemon whose `update_loop` keeps running across iterations (its node/group objects, group I/O caches and HSM
    bookkeeping persist, as in a real daemon): the loop runs in its own thread and is parked inside `global_abort.wait`
    between iterations.  Needs a file database (every thread has its own connection)."""

    def __init__(self, env, host):
        super().__init__(env, host)
        import threading
        self.go = threading.Semaphore(0)
        self.iter_done = threading.Semaphore(0)
        self.stopping = False
        self.aborted = False
        self.thread = None
        self.error = None
        self.iterations = 0

    def _main(self):
        import threading
        _ABORT.by_thread[threading.get_ident()] = self
        try:
            self.upd.update_loop(self.queue, self.pool, once=False)
        except BaseException as ex:  # noqa
            self.error = ex
        finally:
            _ABORT.by_thread.pop(threading.get_ident(), None)
            try:
                self.env.db.database_proxy.close()
            except Exception:
                pass
            self.finished = True
            self.iter_done.release()

    def iterate(self):
        import threading
        upd = self.upd
        self.env.set_host(self.host)
        if upd.global_abort is not _ABORT:
            PersistentDaemon._saved = (upd.serial_io, upd.global_abort)
            upd.serial_io = lambda q: None
            upd.global_abort = _ABORT
        if self.thread is None:
            self.finished = False
            self.thread = threading.Thread(target=self._main, daemon=True)
            self.thread.start()
        else:
            if self.finished:
                raise RuntimeError(f"daemon on {self.host} has exited: {self.error!r}")
            self.go.release()
        if not self.iter_done.acquire(timeout=120):
            raise RuntimeError("update iteration did not finish within 120 s")
        self.iterations += 1
        if self.error is not None:
            err, self.error = self.error, None
            self.thread = None
            raise err
        return self.pending()

    def stop(self):
        if self.thread is not None and not getattr(self, "finished", True):
            self.stopping = True
            self.go.release()
            self.thread.join(timeout=10)
        import threading
        self.thread = None
        self.stopping = False
        self.error = None
        self.go = threading.Semaphore(0)          # fresh semaphores: the exiting loop released iter_done once more
        self.iter_done = threading.Semaphore(0)


def restore_update_globals():
    import alpenhorn.daemon.update as upd
    saved = getattr(PersistentDaemon, "_saved", None)
    if saved is not None and upd.global_abort is _ABORT:
        upd.serial_io, upd.global_abort = saved
