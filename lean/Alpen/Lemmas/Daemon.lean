import Alpen.Model.Daemon
import Alpen.Lemmas.World
/-! helper lemmas for the daemon level (C07, C08). Core Lean only. -/
namespace Alpen
open World
namespace World

/-! ### `WellFormed` versus `WF` / `IdsWF` -/

theorem WellFormed.toWF {w : World} (h : w.WellFormed) : w.WF := ⟨h.uniq, h.idlt⟩
theorem WellFormed.toIdsWF {w : World} (h : w.WellFormed) : w.IdsWF := ⟨h.ids, h.idlt⟩

/-- request ids are below the id counter -/
def RIdsWF (w : World) : Prop := ∀ r ∈ w.reqs, r.id < w.nextId

theorem WellFormed.mk' {w : World} (h1 : w.WF) (h2 : w.IdsWF) (h3 : w.RIdsWF) : w.WellFormed :=
  ⟨h1.1, h2.1, h1.2, h3⟩

/-! ### lookups by id -/

theorem find?_id_of_mem (l : List WCopy) (hn : (l.map (·.id)).Nodup) (c : WCopy) (hc : c ∈ l) :
    l.find? (·.id == c.id) = some c := by
  cases h : l.find? (·.id == c.id) with
  | none =>
    rw [List.find?_eq_none] at h
    exact absurd (by simp) (h c hc)
  | some c' =>
    have hm := List.mem_of_find?_eq_some h
    have hid : c'.id = c.id := by simpa using List.find?_some h
    rw [eq_of_id_eq l hn hm hc hid]

theorem find?_id_some {l : List WCopy} {id : Nat} {c : WCopy} (h : l.find? (·.id == id) = some c) :
    c ∈ l ∧ c.id = id :=
  ⟨List.mem_of_find?_eq_some h, by simpa using List.find?_some h⟩

/-! ### `updateDelete` only names copies of its node -/

theorem updateDelete_mem (w : World) (n : Nat) :
    ∀ id ∈ w.updateDelete n, ∃ c ∈ w.copies, c.id = id ∧ c.node = n := by
  intro id hid
  unfold updateDelete at hid
  split at hid
  · cases hid
  · obtain ⟨d, hd, rfl⟩ := List.mem_map.mp hid
    unfold selectDelete at hd
    have hsub := (selectLoop_sublist _ _ _).subset hd
    obtain ⟨hdm, _⟩ := List.mem_filter.mp hsub
    unfold dcopiesOf at hdm
    obtain ⟨c, hc, rfl⟩ := List.mem_map.mp hdm
    obtain ⟨hcm, hcn⟩ := List.mem_filter.mp hc
    exact ⟨c, hcm, rfl, by simpa using hcn⟩

end World

/-! ### C07.a -/

theorem iterateOps_targets (w : World) (hv : HostView) (hids : (w.copies.map (·.id)).Nodup) :
    ∀ op ∈ iterateOps w hv, ∀ n, targetNode op = some n → n ∈ w.usableIds hv := by
  intro op hop n hn
  unfold iterateOps at hop
  simp only [List.mem_append] at hop
  rcases hop with (hop | hop) | hop
  · obtain ⟨c, hc, rfl⟩ := List.mem_map.mp hop
    obtain ⟨_, hp⟩ := List.mem_filter.mp hc
    simp only [Bool.and_eq_true, List.contains_iff_mem] at hp
    simp only [targetNode, Option.some.injEq] at hn
    subst hn
    exact hp.1.1
  · obtain ⟨m, hm, hop⟩ := List.mem_flatMap.mp hop
    obtain ⟨id, hid, hopt⟩ := List.mem_filterMap.mp hop
    obtain ⟨c0, hc0, rfl, hc0n⟩ := updateDelete_mem w m id hid
    rw [find?_id_of_mem w.copies hids c0 hc0] at hopt
    simp only [Option.map_some, Option.some.injEq] at hopt
    subst hopt
    simp only [targetNode, Option.some.injEq] at hn
    subst hn
    rw [hc0n]; exact hm
  · obtain ⟨r, _, rfl⟩ := List.mem_map.mp hop
    simp [targetNode] at hn

theorem usableIds_iff (w : World) (hv : HostView) (n : Nat) :
    n ∈ w.usableIds hv ↔ ∃ nd ∈ w.nodes, nd.id = n ∧ nd.host = hv.host ∧ nd.active = true ∧
      hv.initialised nd.id = true := by
  unfold usableIds usable
  simp only [List.mem_map, List.mem_filter, Bool.and_eq_true, beq_iff_eq]
  constructor
  · rintro ⟨nd, ⟨hm, ⟨h1, h2⟩, h3⟩, rfl⟩
    exact ⟨nd, hm, rfl, h1, h2, h3⟩
  · rintro ⟨nd, hm, rfl, h1, h2, h3⟩
    exact ⟨nd, ⟨hm, ⟨h1, h2⟩, h3⟩, rfl⟩

/-- a measurement does not change which nodes a daemon may work on -/
theorem usableIds_measure (w : World) (hv : HostView) (n : Nat) (a : Option Int) :
    (w.wstep (.measure n a)).1.usableIds hv = w.usableIds hv := by
  unfold usableIds
  rw [wstep_measure_nodes, List.filter_map, List.map_map]
  have hf : w.nodes.filter (usable hv ∘ measRow n a) = w.nodes.filter (usable hv) := by
    apply List.filter_congr
    intro x _
    have := measRow_frame n a x
    simp only [Function.comp, usable, this.1, this.2.2.1, this.2.2.2.1]
  rw [hf]
  apply List.map_congr_left
  intro x _
  exact (measRow_frame n a x).1

/-! ### C07.b storage -/

namespace World

theorem wstep_diskAt_off_target (w : World) (op : WOp) (hnf : ∀ n f c, op ≠ .fault n f c) (n f : Nat)
    (h : targetNode op ≠ some n) : (w.wstep op).1.diskAt n f = w.diskAt n f := by
  by_cases hd : ∃ c uf, op = .deleteOne c uf
  · obtain ⟨c, uf, rfl⟩ := hd
    have hne : (n, f) ≠ (c.node, c.file) := by
      intro hk
      apply h
      simp only [targetNode, Option.some.injEq]
      exact (congrArg Prod.fst hk).symm
    show (w.deleteOne c uf).1.diskAt n f = _
    unfold deleteOne
    split
    · rfl
    · split
      · rfl
      · rw [diskAt_congr (mapCopy_disk ..), diskAt_setDisk, if_neg hne]
  · rcases wstep_diskAt w op hnf (fun c uf he => hd ⟨c, uf, he⟩) n f with h' | ⟨r, d, t, rfl, _, hk⟩
    · exact h'
    · exfalso
      apply h
      simp only [targetNode, Option.some.injEq]
      exact (congrArg Prod.fst hk).symm

theorem wstep_storage_target (w : World) (op : WOp) (e : Eff) (he : e ∈ (w.wstep op).2) :
    (∀ n f, e = .unlink n f → targetNode op = some n) ∧
    (∀ n f c, e = .write n f c → targetNode op = some n) := by
  constructor
  · intro n f hEq
    subst hEq
    rcases wstep_storage w op _ he rfl with ⟨c, uf, rfl, h⟩ | ⟨r, d, t, rfl, _, h | ⟨b, h⟩⟩
    · injection h with h1 h2
      simp [targetNode, h1]
    · injection h with h1 h2
      simp [targetNode, h1]
    · cases h
  · intro n f c hEq
    subst hEq
    rcases wstep_storage w op _ he rfl with ⟨c, uf, rfl, h⟩ | ⟨r, d, t, rfl, _, h | ⟨b, h⟩⟩
    · cases h
    · cases h
    · injection h with h1 h2
      simp [targetNode, h1]

end World

/-! ### C07.b index: rows of other nodes -/

namespace World

/-- side condition on a step, extending `OpWF` to delete steps: the row captured by a check or
    delete task has the (file, node) of the stored row with the same id -/
def OpWF' (w : World) : WOp → Prop
  | .check snap _ => ∀ x ∈ w.copies, x.id = snap.id → x.file = snap.file ∧ x.node = snap.node
  | .deleteOne c _ => ∀ x ∈ w.copies, x.id = c.id → x.file = c.file ∧ x.node = c.node
  | _ => True

theorem OpWF'.toOpWF {w : World} {op : WOp} (h : OpWF' w op) : OpWF w op := by
  cases op <;> first | exact h | trivial

/-- with unique ids, `mapCopy c.id g` changes the row `c` only -/
theorem mem_mapCopy_of_nodup {w : World} (hn : (w.copies.map (·.id)).Nodup) {c : WCopy}
    (hc : c ∈ w.copies) {g : WCopy → WCopy} {x : WCopy} (hx : x ∈ (w.mapCopy c.id g).copies) :
    x = g c ∨ (x ∈ w.copies ∧ x.id ≠ c.id) := by
  obtain ⟨y, hy, rfl⟩ := mem_mapCopy.mp hx
  by_cases h : y.id = c.id
  · have := eq_of_id_eq _ hn hy hc h
    subst this
    left; simp
  · right; simp [h]; exact hy

/-- with unique ids, `upsertHealthy f n` touches only the row of (f, n) -/
theorem upsertHealthy_mem {w : World} (hn : (w.copies.map (·.id)).Nodup) (f n : Nat) {x : WCopy}
    (hx : x ∈ (w.upsertHealthy f n).copies) : x ∈ w.copies ∨ (x.file = f ∧ x.node = n ∧ x.has = .Y) := by
  unfold upsertHealthy at hx
  split at hx
  · rename_i c hc
    obtain ⟨hcm, hcf, hcn⟩ := copyAt_some hc
    rcases mem_mapCopy_of_nodup hn hcm hx with rfl | ⟨h, _⟩
    · exact Or.inr ⟨hcf, hcn, rfl⟩
    · exact Or.inl h
  · rcases List.mem_append.mp hx with h | h
    · exact Or.inl h
    · rw [List.mem_singleton] at h; subst h; exact Or.inr ⟨rfl, rfl, rfl⟩

/-- with unique ids, `post_add` leaves a row alone or releases it -/
theorem paRow_cases (w : World) (n f : Nat) (hn : (w.copies.map (·.id)).Nodup)
    (c : WCopy) (hc : c ∈ w.copies) :
    paRow (postAdd w.toPNodes w.edges w.toPCopies n f).2 c = c ∨
    paRow (postAdd w.toPNodes w.edges w.toPCopies n f).2 c = { c with wants := .N } := by
  unfold paRow
  split
  · rename_i p hfind
    have hpm := List.mem_of_find?_eq_some hfind
    have hpid : p.id = c.id := by simpa using List.find?_some hfind
    have hpm' : p ∈ w.toPCopies.map (releaseIf ((cleanEdges w.toPNodes w.edges n).map (·.nodeFrom)) f) := hpm
    obtain ⟨q, hq, rfl⟩ := List.mem_map.mp hpm'
    unfold toPCopies at hq
    obtain ⟨c0, hc0, rfl⟩ := List.mem_map.mp hq
    rw [releaseIf_id] at hpid
    have h0 : c0 = c := eq_of_id_eq w.copies hn hc0 hc hpid
    subst h0
    unfold releaseIf
    split
    · exact Or.inr rfl
    · exact Or.inl rfl
  · exact Or.inl rfl

theorem foreign_rows (w : World) (op : WOp) (hids : w.IdsWF) (hop : OpWF' w op)
    (hdaemon : (∃ c uf, op = .deleteOne c uf) ∨ (∃ s ok, op = .check s ok) ∨ (∃ r sr, op = .decide r sr) ∨
               (∃ r d od, op = .search r d od) ∨ (∃ r d t, op = .pull r d t))
    (x : WCopy) (hx : x ∈ (w.wstep op).1.copies) (hn : targetNode op ≠ some x.node) :
    ∃ x0 ∈ w.copies, x0.id = x.id ∧ x0.file = x.file ∧ x0.node = x.node ∧ x0.ready = x.ready ∧
      (x = x0 ∨ (x.has = .M ∧ x.wants = x0.wants) ∨ (x.has = x0.has ∧ x.wants = .N)) := by
  have keep : ∀ y : WCopy, y ∈ w.copies → ∃ x0 ∈ w.copies, x0.id = y.id ∧ x0.file = y.file ∧
      x0.node = y.node ∧ x0.ready = y.ready ∧
      (y = x0 ∨ (y.has = .M ∧ y.wants = x0.wants) ∨ (y.has = x0.has ∧ y.wants = .N)) :=
    fun y h => ⟨y, h, rfl, rfl, rfl, rfl, Or.inl rfl⟩
  rcases hdaemon with ⟨c, uf, rfl⟩ | ⟨snap, ok, rfl⟩ | ⟨r, sr, rfl⟩ | ⟨r, d, od, rfl⟩ | ⟨r, d, t, rfl⟩
  · -- deleteOne
    change x ∈ (w.deleteOne c uf).1.copies at hx
    unfold deleteOne at hx
    split at hx
    · exact keep x hx
    · split at hx
      · exact keep x hx
      · obtain ⟨y, hy, rfl⟩ := mem_mapCopy.mp hx
        have hy' : y ∈ w.copies := hy
        by_cases hid : y.id = c.id
        · exfalso
          apply hn
          have := (hop y hy' hid).2
          simp [targetNode, hid, this]
        · simp only [beq_iff_eq, hid, if_false]
          exact keep y hy'
  · -- check
    change x ∈ (w.checkStep snap ok).1.copies at hx
    unfold checkStep at hx
    dsimp only at hx
    split at hx
    · exact keep x hx
    · obtain ⟨y, hy, rfl⟩ := mem_mapCopy.mp hx
      by_cases hid : y.id = snap.id
      · exfalso
        apply hn
        simp [targetNode, hid]
      · simp only [beq_iff_eq, hid, if_false]
        exact keep y hy
  · -- decide
    change x ∈ (w.applyDecision r (w.updatePull r sr)).1.copies at hx
    unfold applyDecision at hx
    split at hx <;> exact keep x hx
  · -- search
    change x ∈ (w.groupSearch r d od).1.copies at hx
    unfold groupSearch at hx
    split at hx
    · exact keep x hx
    · exact keep x hx
    · split at hx
      · split at hx
        · rename_i c hc
          obtain ⟨hcm, hcf, hcn⟩ := copyAt_some hc
          rcases mem_mapCopy_of_nodup hids.1 hcm hx with rfl | ⟨h, _⟩
          · exfalso; apply hn; simp [targetNode, hcn]
          · exact keep x h
        · rcases List.mem_append.mp hx with h | h
          · exact keep x h
          · rw [List.mem_singleton] at h; subst h
            exfalso; apply hn; simp [targetNode]
      · exact keep x hx
  · -- pull
    change x ∈ (w.pullTask r d t).1.copies at hx
    have hn' : d ≠ x.node := by
      intro h; apply hn; simp [targetNode, h]
    unfold pullTask at hx
    split at hx
    · exact keep x hx
    · have hsusp : ∀ x ∈ (match (w.setDisk d r.file none).copyAt r.file r.nodeFrom with
          | some c => (w.setDisk d r.file none).mapCopy c.id (fun x => { x with has := .M })
          | none => w.setDisk d r.file none).copies,
          ∃ x0 ∈ w.copies, x0.id = x.id ∧ x0.file = x.file ∧
            x0.node = x.node ∧ x0.ready = x.ready ∧
            (x = x0 ∨ (x.has = .M ∧ x.wants = x0.wants) ∨ (x.has = x0.has ∧ x.wants = .N)) := by
        intro x hx
        split at hx
        · obtain ⟨y, hy, rfl⟩ := mem_mapCopy.mp hx
          have hy' : y ∈ w.copies := hy
          split
          · exact ⟨y, hy', rfl, rfl, rfl, rfl, Or.inr (Or.inl ⟨rfl, rfl⟩)⟩
          · exact keep y hy'
        · exact keep x hx
      cases t with
      | noRoute => exact keep x hx
      | failedNoCheck => exact keep x hx
      | failedCheckSrc => exact hsusp x hx
      | digestMismatch => exact hsusp x hx
      | ok =>
        dsimp only at hx
        split at hx
        · exact keep x hx
        · rename_i bytes _
          rw [applyPostAdd_copies] at hx
          obtain ⟨y, hy, rfl⟩ := List.mem_map.mp hx
          have hy2 : y ∈ ((w.setDisk d r.file (some bytes)).upsertHealthy r.file d).copies := hy
          have hI : ((w.setDisk d r.file (some bytes)).upsertHealthy r.file d).IdsWF :=
            IdsWF_upsertHealthy _ _ (IdsWF_of_copies_eq (w := w) rfl rfl hids)
          have hfr := paRow_frame (postAdd (((w.setDisk d r.file (some bytes)).upsertHealthy r.file d).mapReq r.id
            (fun x => { x with completed := true })).toPNodes (((w.setDisk d r.file (some bytes)).upsertHealthy r.file d).mapReq r.id
            (fun x => { x with completed := true })).edges (((w.setDisk d r.file (some bytes)).upsertHealthy r.file d).mapReq r.id
            (fun x => { x with completed := true })).toPCopies d r.file).2 y
          rw [hfr.2.1] at hn'
          rcases upsertHealthy_mem (w := w.setDisk d r.file (some bytes)) hids.1 r.file d hy2 with h | ⟨_, h, _⟩
          · have h' : y ∈ w.copies := h
            rcases paRow_cases (((w.setDisk d r.file (some bytes)).upsertHealthy r.file d).mapReq r.id
              (fun x => { x with completed := true })) d r.file hI.1 y hy with he | he
            · rw [he]; exact keep y h'
            · rw [he]; exact ⟨y, h', rfl, rfl, rfl, rfl, Or.inr (Or.inr ⟨rfl, rfl⟩)⟩
          · exact absurd h.symm hn'

end World

/-! ### C08.1: unique ids and request ids are preserved by every step -/

namespace World

theorem IdsWF_of_ids_eq {w w' : World} (hc : w'.copies.map (·.id) = w.copies.map (·.id))
    (hn : w.nextId ≤ w'.nextId) (h : w.IdsWF) : w'.IdsWF := by
  refine ⟨by rw [hc]; exact h.1, ?_⟩
  intro c hcm
  have : c.id ∈ w'.copies.map (·.id) := List.mem_map.mpr ⟨c, hcm, rfl⟩
  rw [hc] at this
  obtain ⟨y, hy, hyid⟩ := List.mem_map.mp this
  have := h.2 y hy
  omega

theorem IdsWF_map {w w' : World} (g : WCopy → WCopy) (hc : w'.copies = w.copies.map g)
    (hn : w.nextId ≤ w'.nextId) (hg : ∀ c ∈ w.copies, (g c).id = c.id) (h : w.IdsWF) : w'.IdsWF := by
  refine IdsWF_of_ids_eq ?_ hn h
  rw [hc, List.map_map]
  apply List.map_congr_left
  intro a ha
  exact hg a ha

theorem IdsWF_mapCopy {w : World} (id : Nat) (g : WCopy → WCopy)
    (hg : ∀ c ∈ w.copies, c.id = id → (g c).id = c.id) (h : w.IdsWF) : (w.mapCopy id g).IdsWF := by
  refine IdsWF_map (fun c => if c.id == id then g c else c) rfl (Nat.le_refl _) ?_ h
  intro c hc
  by_cases hid : c.id = id
  · have hb : (c.id == id) = true := by simp [hid]
    simp only [hb, if_true]; exact hg c hc hid
  · simp [hid]

theorem IdsWF_append {w : World} (f n : Nat) (hs : Has) (wn : Wants) (rd : Bool) (h : w.IdsWF) :
    IdsWF { w with copies := w.copies ++ [⟨w.nextId, f, n, hs, wn, rd⟩], nextId := w.nextId + 1 } := by
  refine ⟨?_, ?_⟩
  · show ((w.copies ++ [(⟨w.nextId, f, n, hs, wn, rd⟩ : WCopy)]).map (·.id)).Nodup
    rw [List.map_append, List.nodup_append]
    refine ⟨h.1, by simp, ?_⟩
    intro a ha b hb
    obtain ⟨y, hy, rfl⟩ := List.mem_map.mp ha
    simp only [List.map_cons, List.map_nil, List.mem_singleton] at hb
    subst hb
    exact Nat.ne_of_lt (h.2 y hy)
  · intro c hc
    show c.id < w.nextId + 1
    rcases List.mem_append.mp hc with hc | hc
    · exact Nat.lt_succ_of_lt (h.2 c hc)
    · rw [List.mem_singleton] at hc; subst hc; exact Nat.lt_succ_self _

theorem IdsWF_applyPostAdd {w : World} (n f : Nat) (h : w.IdsWF) : (w.applyPostAdd n f).1.IdsWF := by
  refine IdsWF_map _ (applyPostAdd_copies w n f) ?_ ?_ h
  · rw [applyPostAdd_nextId]; omega
  · intro c _
    exact (paRow_frame _ c).2.2.1

theorem IdsWF_setDisk {w : World} (n f : Nat) (c : Option OnDisk) (h : w.IdsWF) : (w.setDisk n f c).IdsWF :=
  IdsWF_of_copies_eq rfl rfl h

theorem IdsWF_mapReq {w : World} (id : Nat) (g : WReq → WReq) (h : w.IdsWF) : (w.mapReq id g).IdsWF :=
  IdsWF_of_copies_eq rfl rfl h

theorem IdsWF_wstep {w : World} (op : WOp) (h : w.IdsWF) : (w.wstep op).1.IdsWF := by
  cases op with
  | deleteOne c uf =>
    show (w.deleteOne c uf).1.IdsWF
    unfold deleteOne
    split
    · exact h
    · split
      · exact h
      · exact IdsWF_mapCopy _ _ (fun _ _ _ => rfl) (IdsWF_setDisk _ _ _ h)
  | check snap ok =>
    show (w.checkStep snap ok).1.IdsWF
    unfold checkStep
    dsimp only
    split
    · exact h
    · exact IdsWF_mapCopy _ _ (fun _ _ hid => hid.symm) h
  | decide r sr =>
    show (w.applyDecision r (w.updatePull r sr)).1.IdsWF
    unfold applyDecision
    split
    · exact IdsWF_mapReq _ _ h
    · exact IdsWF_mapReq _ _ h
    · exact h
  | search r d od =>
    show (w.groupSearch r d od).1.IdsWF
    unfold groupSearch
    split
    · exact IdsWF_mapReq _ _ h
    · exact IdsWF_mapReq _ _ h
    · split
      · split
        · exact IdsWF_mapCopy _ _ (fun _ _ _ => rfl) h
        · exact IdsWF_append _ _ _ _ _ h
      · exact h
  | pull r d t =>
    show (w.pullTask r d t).1.IdsWF
    unfold pullTask
    split
    · exact IdsWF_mapReq _ _ h
    · cases t with
      | noRoute => exact h
      | failedNoCheck => exact IdsWF_setDisk _ _ _ h
      | failedCheckSrc =>
        dsimp only
        split
        · exact IdsWF_mapCopy _ _ (fun _ _ _ => rfl) (IdsWF_setDisk _ _ _ h)
        · exact IdsWF_setDisk _ _ _ h
      | digestMismatch =>
        dsimp only
        split
        · exact IdsWF_mapCopy _ _ (fun _ _ _ => rfl) (IdsWF_setDisk _ _ _ h)
        · exact IdsWF_setDisk _ _ _ h
      | ok =>
        dsimp only
        split
        · exact h
        · exact IdsWF_applyPostAdd _ _ (IdsWF_mapReq _ _ (IdsWF_upsertHealthy _ _ (IdsWF_setDisk _ _ _ h)))
  | opSetCopy id hs wn => exact IdsWF_mapCopy _ _ (fun _ _ _ => rfl) h
  | opAddReq f nf gt => exact IdsWF_of_ids_eq (w := w) rfl (Nat.le_succ _) h
  | opCancelReq id => exact IdsWF_mapReq _ _ h
  | opAddCopy f n hs wn =>
    show (match w.copyAt f n with
      | some _ => (w, [])
      | none => ({ w with copies := w.copies ++ [(⟨w.nextId, f, n, hs, wn, true⟩ : WCopy)], nextId := w.nextId + 1 }, ([] : List Eff))).1.IdsWF
    split
    · exact h
    · exact IdsWF_append _ _ _ _ _ h
  | fault n f c => exact IdsWF_setDisk _ _ _ h
  | measure n a => exact IdsWF_of_copies_eq (w := w) rfl rfl h

/-! request ids -/

theorem RIdsWF_of_reqs_eq {w w' : World} (hr : w'.reqs = w.reqs) (hn : w.nextId ≤ w'.nextId)
    (h : w.RIdsWF) : w'.RIdsWF := by
  intro r hrm; rw [hr] at hrm; exact Nat.lt_of_lt_of_le (h r hrm) hn

theorem RIdsWF_mapReq {w : World} (id : Nat) (g : WReq → WReq) (hg : ∀ r, (g r).id = r.id)
    (h : w.RIdsWF) : (w.mapReq id g).RIdsWF := by
  intro r hrm
  obtain ⟨y, hy, rfl⟩ := List.mem_map.mp hrm
  show _ < w.nextId
  split
  · rw [hg]; exact h y hy
  · exact h y hy

theorem RIdsWF_addReq {w : World} (f nf gt : Nat) (h : w.RIdsWF) :
    RIdsWF { w with reqs := w.reqs ++ [⟨w.nextId, f, nf, gt, false, false⟩], nextId := w.nextId + 1 } := by
  intro r hrm
  show r.id < w.nextId + 1
  rcases List.mem_append.mp hrm with hr | hr
  · exact Nat.lt_succ_of_lt (h r hr)
  · rw [List.mem_singleton] at hr; subst hr; exact Nat.lt_succ_self _

theorem foldl_reqs_lt (qs : List PReq) (acc : List WReq × Nat) (hacc : ∀ r ∈ acc.1, r.id < acc.2) :
    ∀ r ∈ (qs.foldl (fun (acc : List WReq × Nat) q =>
      (acc.1 ++ [⟨acc.2, q.file, q.nodeFrom, q.groupTo, false, false⟩], acc.2 + 1)) acc).1,
      r.id < (qs.foldl (fun (acc : List WReq × Nat) q =>
      (acc.1 ++ [⟨acc.2, q.file, q.nodeFrom, q.groupTo, false, false⟩], acc.2 + 1)) acc).2 := by
  induction qs generalizing acc with
  | nil => exact hacc
  | cons q qs ih =>
    simp only [List.foldl_cons]
    apply ih
    intro r hr
    show r.id < acc.2 + 1
    rcases List.mem_append.mp hr with hr | hr
    · exact Nat.lt_succ_of_lt (hacc r hr)
    · rw [List.mem_singleton] at hr; subst hr; exact Nat.lt_succ_self _

theorem applyPostAdd_reqs (w : World) (n f : Nat) :
    (w.applyPostAdd n f).1.reqs = w.reqs ++
      ((postAdd w.toPNodes w.edges w.toPCopies n f).1.foldl (fun (acc : List WReq × Nat) q =>
        (acc.1 ++ [⟨acc.2, q.file, q.nodeFrom, q.groupTo, false, false⟩], acc.2 + 1))
        (([] : List WReq), w.nextId)).1 := rfl

theorem applyPostAdd_nextId' (w : World) (n f : Nat) :
    (w.applyPostAdd n f).1.nextId =
      ((postAdd w.toPNodes w.edges w.toPCopies n f).1.foldl (fun (acc : List WReq × Nat) q =>
        (acc.1 ++ [⟨acc.2, q.file, q.nodeFrom, q.groupTo, false, false⟩], acc.2 + 1))
        (([] : List WReq), w.nextId)).2 := rfl

theorem RIdsWF_applyPostAdd {w : World} (n f : Nat) (h : w.RIdsWF) : (w.applyPostAdd n f).1.RIdsWF := by
  intro r hr
  rw [applyPostAdd_reqs] at hr
  rcases List.mem_append.mp hr with hr | hr
  · have := h r hr
    rw [applyPostAdd_nextId]; omega
  · rw [applyPostAdd_nextId']
    exact foldl_reqs_lt _ _ (by intro r hr; cases hr) r hr

theorem RIdsWF_setDisk {w : World} (n f : Nat) (c : Option OnDisk) (h : w.RIdsWF) : (w.setDisk n f c).RIdsWF :=
  RIdsWF_of_reqs_eq rfl (Nat.le_refl _) h

theorem RIdsWF_mapCopy {w : World} (id : Nat) (g : WCopy → WCopy) (h : w.RIdsWF) : (w.mapCopy id g).RIdsWF :=
  RIdsWF_of_reqs_eq rfl (Nat.le_refl _) h

theorem RIdsWF_upsertHealthy {w : World} (f n : Nat) (h : w.RIdsWF) : (w.upsertHealthy f n).RIdsWF := by
  unfold upsertHealthy
  split
  · exact RIdsWF_mapCopy _ _ h
  · exact RIdsWF_of_reqs_eq (w := w) rfl (Nat.le_succ _) h

theorem RIdsWF_wstep {w : World} (op : WOp) (h : w.RIdsWF) : (w.wstep op).1.RIdsWF := by
  cases op with
  | deleteOne c uf =>
    show (w.deleteOne c uf).1.RIdsWF
    unfold deleteOne
    split
    · exact h
    · split
      · exact h
      · exact RIdsWF_mapCopy _ _ (RIdsWF_setDisk _ _ _ h)
  | check snap ok =>
    show (w.checkStep snap ok).1.RIdsWF
    unfold checkStep
    dsimp only
    split
    · exact h
    · exact RIdsWF_mapCopy _ _ h
  | decide r sr =>
    show (w.applyDecision r (w.updatePull r sr)).1.RIdsWF
    unfold applyDecision
    split
    · exact RIdsWF_mapReq _ _ (fun _ => rfl) h
    · exact RIdsWF_mapReq _ _ (fun _ => rfl) h
    · exact h
  | search r d od =>
    show (w.groupSearch r d od).1.RIdsWF
    unfold groupSearch
    split
    · exact RIdsWF_mapReq _ _ (fun _ => rfl) h
    · exact RIdsWF_mapReq _ _ (fun _ => rfl) h
    · split
      · split
        · exact RIdsWF_mapCopy _ _ h
        · exact RIdsWF_of_reqs_eq (w := w) rfl (Nat.le_succ _) h
      · exact h
  | pull r d t =>
    show (w.pullTask r d t).1.RIdsWF
    unfold pullTask
    split
    · exact RIdsWF_mapReq _ _ (fun _ => rfl) h
    · cases t with
      | noRoute => exact h
      | failedNoCheck => exact RIdsWF_setDisk _ _ _ h
      | failedCheckSrc =>
        dsimp only
        split
        · exact RIdsWF_mapCopy _ _ (RIdsWF_setDisk _ _ _ h)
        · exact RIdsWF_setDisk _ _ _ h
      | digestMismatch =>
        dsimp only
        split
        · exact RIdsWF_mapCopy _ _ (RIdsWF_setDisk _ _ _ h)
        · exact RIdsWF_setDisk _ _ _ h
      | ok =>
        dsimp only
        split
        · exact h
        · exact RIdsWF_applyPostAdd _ _ (RIdsWF_mapReq _ _ (fun _ => rfl)
            (RIdsWF_upsertHealthy _ _ (RIdsWF_setDisk _ _ _ h)))
  | opSetCopy id hs wn => exact RIdsWF_mapCopy _ _ h
  | opAddReq f nf gt => exact RIdsWF_addReq f nf gt h
  | opCancelReq id => exact RIdsWF_mapReq _ _ (fun _ => rfl) h
  | opAddCopy f n hs wn =>
    show (match w.copyAt f n with
      | some _ => (w, [])
      | none => ({ w with copies := w.copies ++ [(⟨w.nextId, f, n, hs, wn, true⟩ : WCopy)], nextId := w.nextId + 1 }, ([] : List Eff))).1.RIdsWF
    split
    · exact h
    · exact RIdsWF_of_reqs_eq (w := w) rfl (Nat.le_succ _) h
  | fault n f c => exact RIdsWF_setDisk _ _ _ h
  | measure n a => exact RIdsWF_of_reqs_eq (w := w) rfl (Nat.le_refl _) h

theorem WellFormed_wstep {w : World} (op : WOp) (hop : OpWF w op) (h : w.WellFormed) :
    (w.wstep op).1.WellFormed :=
  WellFormed.mk' (WF_wstep op hop h.toWF) (IdsWF_wstep op h.toIdsWF) (RIdsWF_wstep op h.rids)

end World

/-! ### C08.2: index / storage agreement -/

namespace World

/-- the bytes at (n, f) exist and have the registered length -/
def AgreeAt (w : World) (n f : Nat) : Prop :=
  ∃ d, w.diskAt n f = some d ∧ (∀ s, w.fileSize f = some s → d.len = s)

theorem Agree_iff (w : World) (tr : Tracked) :
    w.Agree tr ↔ ∀ c ∈ w.copies, (c.node, c.file) ∉ tr → c.has = .Y → w.AgreeAt c.node c.file := Iff.rfl

theorem fileSize_congr {w w' : World} (hf : w'.files = w.files) (f : Nat) : w'.fileSize f = w.fileSize f := by
  unfold fileSize file?; rw [hf]

theorem AgreeAt_congr {w w' : World} (hf : w'.files = w.files) {n f : Nat}
    (hd : w'.diskAt n f = w.diskAt n f) (h : w.AgreeAt n f) : w'.AgreeAt n f := by
  obtain ⟨d, h1, h2⟩ := h
  exact ⟨d, hd.trans h1, fun s hs => h2 s ((fileSize_congr hf f).symm.trans hs)⟩

theorem eq_of_key_eq {w : World} (hu : w.UniqueCopies) {a b : WCopy} (ha : a ∈ w.copies) (hb : b ∈ w.copies)
    (hf : a.file = b.file) (hn : a.node = b.node) : a = b := by
  have h1 := copyAt_of_mem w hu a ha
  have h2 := copyAt_of_mem w hu b hb
  rw [hf, hn, h2] at h1
  exact (Option.some.inj h1).symm

theorem upsertHealthy_files (w : World) (f n : Nat) : (w.upsertHealthy f n).files = w.files := by
  unfold upsertHealthy; split <;> rfl

/-- extra side conditions under which a step keeps the index/storage agreement relative to
    `trackStep`: the row captured by a check or delete task is a stored row; a check reaches a
    verdict (an abandoned check does not look at the bytes, yet `trackStep` clears the pair); a
    pull that finds its destination already recorded healthy (it then writes nothing, yet
    `trackStep` may clear the destination pair) finds the destination bytes intact — in
    particular every pull that actually runs (`filecopyState r.file dest ≠ Y`) qualifies -/
def _root_.Alpen.StepOK' (w : World) : WOp → Prop
  | .check snap ok => (∃ x ∈ w.copies, x.id = snap.id) ∧ (ok = true ∨ w.diskAt snap.node snap.file = none)
  | .deleteOne c _ => ∃ x ∈ w.copies, x.id = c.id ∧ x.file = c.file ∧ x.node = c.node
  | .pull r dest _ => w.filecopyState r.file dest = .Y → w.AgreeAt dest r.file
  | _ => True

theorem checkVerdict_ok (len : Nat) (dig : Option Str) (rs : Option Nat) (rd : Option Str) :
    ∃ v, checkVerdict ⟨true, true, len, dig⟩ rs rd = some v ∧ (v = .Y → ∀ s, rs = some s → len = s) := by
  cases rs with
  | none =>
    by_cases hdig : dig = rd
    · exact ⟨.Y, by simp [checkVerdict, hdig], by intro _ s h; cases h⟩
    · exact ⟨.X, by simp [checkVerdict, hdig], by intro h; cases h⟩
  | some sz =>
    by_cases hl : len = sz
    · by_cases hdig : dig = rd
      · exact ⟨.Y, by simp [checkVerdict, hdig, hl], by intro _ s h; cases h; exact hl⟩
      · exact ⟨.X, by simp [checkVerdict, hdig, hl], by intro h; cases h⟩
    · exact ⟨.X, by simp [checkVerdict, hl], by intro h; cases h⟩

/-- the two outcomes of a check step: a verdict (healthy only if the bytes are there with the
    registered length), or abandoned because `stat` failed on an existing file -/
theorem checkStep_cases (w : World) (snap : WCopy) (ok : Bool) :
    (∃ h, w.checkStep snap ok = (w.mapCopy snap.id (fun _ => { snap with has := h }), [.setCopy snap.id h snap.wants]) ∧
      (h = .Y → w.AgreeAt snap.node snap.file)) ∨
    (w.checkStep snap ok = (w, []) ∧ ok = false ∧ (w.diskAt snap.node snap.file).isSome = true) := by
  unfold checkStep
  cases hd : w.diskAt snap.node snap.file with
  | none =>
    left
    refine ⟨.N, ?_, by intro h; cases h⟩
    simp [checkVerdict]
  | some d =>
    cases ok with
    | false =>
      right
      simp [checkVerdict]
    | true =>
      left
      obtain ⟨v, hv, hY⟩ := checkVerdict_ok d.len (some [Char.ofNat d.digest])
        ((w.file? snap.file).bind (·.size)) (((w.file? snap.file).bind (·.md5)).map (fun d => [Char.ofNat d]))
      refine ⟨v, ?_, fun hy => ⟨d, hd, hY hy⟩⟩
      dsimp only
      rw [hv]

theorem not_mem_filter_ne {tr : Tracked} {p k : Nat × Nat} (h : p ∉ tr.filter (· != k)) (hk : p ≠ k) : p ∉ tr :=
  fun hm => h (List.mem_filter.mpr ⟨hm, by simp [hk]⟩)

theorem trackStep_pull_off {w : World} {tr : Tracked} {r : WReq} {dest : Nat} {t : Transfer} {p : Nat × Nat}
    (hp : p ∉ trackStep w tr (.pull r dest t)) (hk : p ≠ (dest, r.file)) : p ∉ tr := by
  simp only [trackStep] at hp
  split at hp
  · exact fun hm => hp (List.mem_cons_of_mem _ hm)
  · exact not_mem_filter_ne hp hk

theorem trackStep_pull_on {w : World} {tr : Tracked} {r : WReq} {dest : Nat} {t : Transfer}
    (hp : (dest, r.file) ∉ trackStep w tr (.pull r dest t)) :
    (r.nodeFrom, r.file) ∉ tr ∧ w.filecopyState r.file r.nodeFrom = .Y := by
  simp only [trackStep] at hp
  split at hp
  · exact absurd (List.mem_cons_self ..) hp
  · rename_i hc
    simp only [Bool.or_eq_true, List.contains_iff_mem, bne_iff_ne, ne_eq, not_or, Decidable.not_not] at hc
    exact hc

theorem Agree_fault (w : World) (tr : Tracked) (n f : Nat) (c : Option OnDisk) (h : w.Agree tr) :
    (w.setDisk n f c).Agree ((n, f) :: tr) := by
  intro x hx hnt hY
  have hx' : x ∈ w.copies := hx
  have h1 : (x.node, x.file) ≠ (n, f) := fun e => hnt (e ▸ List.mem_cons_self ..)
  have h2 : (x.node, x.file) ∉ tr := fun e => hnt (List.mem_cons_of_mem _ e)
  show AgreeAt _ _ _
  refine AgreeAt_congr (w := w) (w' := w.setDisk n f c) rfl ?_ (h x hx' h2 hY)
  rw [diskAt_setDisk, if_neg h1]

theorem Agree_opSetCopy (w : World) (tr : Tracked) (id : Nat) (hs : Has) (wn : Wants)
    (hids : (w.copies.map (·.id)).Nodup) (h : w.Agree tr) :
    (w.mapCopy id (fun c => { c with has := hs, wants := wn })).Agree (trackStep w tr (.opSetCopy id hs wn)) := by
  intro x hx hnt hY
  obtain ⟨y, hy, rfl⟩ := mem_mapCopy.mp hx
  by_cases hid : y.id = id
  · exfalso
    subst hid
    simp only [trackStep, find?_id_of_mem w.copies hids y hy] at hnt
    apply hnt
    simp
  · simp only [beq_iff_eq, hid, if_false] at hnt hY ⊢
    have h2 : (y.node, y.file) ∉ tr := by
      simp only [trackStep] at hnt
      split at hnt
      · exact fun e => hnt (List.mem_cons_of_mem _ e)
      · exact hnt
    exact AgreeAt_congr (w := w) rfl rfl (h y hy h2 hY)

theorem Agree_opAddCopy (w : World) (tr : Tracked) (f n : Nat) (hs : Has) (wn : Wants) (h : w.Agree tr) :
    (w.wstep (.opAddCopy f n hs wn)).1.Agree ((n, f) :: tr) := by
  simp only [wstep]
  split
  · intro x hx hnt hY
    exact h x hx (fun e => hnt (List.mem_cons_of_mem _ e)) hY
  · intro x hx hnt hY
    rcases List.mem_append.mp hx with hx | hx
    · exact AgreeAt_congr (w := w) rfl rfl (h x hx (fun e => hnt (List.mem_cons_of_mem _ e)) hY)
    · rw [List.mem_singleton] at hx; subst hx
      exact absurd (List.mem_cons_self ..) hnt

theorem Agree_search (w : World) (tr : Tracked) (r : WReq) (d : Nat) (od : Bool) (h : w.Agree tr) :
    (w.groupSearch r d od).1.Agree tr := by
  unfold groupSearch
  split
  · exact h
  · exact h
  · split
    · split
      · intro x hx hnt hY
        obtain ⟨y, hy, rfl⟩ := mem_mapCopy.mp hx
        split at hY
        · cases hY
        · rename_i hid
          rw [if_neg hid] at hnt ⊢
          exact AgreeAt_congr (w := w) rfl rfl (h y hy hnt hY)
      · intro x hx hnt hY
        rcases List.mem_append.mp hx with hx | hx
        · exact AgreeAt_congr (w := w) rfl rfl (h x hx hnt hY)
        · rw [List.mem_singleton] at hx; subst hx; cases hY
    · exact h

theorem Agree_deleteOne (w : World) (tr : Tracked) (c : WCopy) (uf : Bool) (hu : w.UniqueCopies)
    (hs' : ∃ x ∈ w.copies, x.id = c.id ∧ x.file = c.file ∧ x.node = c.node) (h : w.Agree tr) :
    (w.deleteOne c uf).1.Agree tr := by
  unfold deleteOne
  split
  · exact h
  · split
    · exact h
    · intro x hx hnt hY
      obtain ⟨y, hy, rfl⟩ := mem_mapCopy.mp hx
      have hy' : y ∈ w.copies := hy
      split at hY
      · cases hY
      · rename_i hid
        rw [if_neg hid] at hnt ⊢
        have hid' : y.id ≠ c.id := by simpa using hid
        obtain ⟨z, hz, hzid, hzf, hzn⟩ := hs'
        have hk : (y.node, y.file) ≠ (c.node, c.file) := by
          intro e
          have e1 : y.node = c.node := congrArg Prod.fst e
          have e2 : y.file = c.file := congrArg Prod.snd e
          have := eq_of_key_eq hu hy' hz (e2.trans hzf.symm) (e1.trans hzn.symm)
          subst this
          exact hid' hzid
        show AgreeAt ((w.setDisk c.node c.file none).mapCopy c.id _) _ _
        refine AgreeAt_congr (w := w) (w' := (w.setDisk c.node c.file none).mapCopy c.id _) rfl ?_ (h y hy' hnt hY)
        rw [diskAt_congr (mapCopy_disk ..), diskAt_setDisk, if_neg hk]

theorem Agree_check (w : World) (tr : Tracked) (snap : WCopy) (ok : Bool) (hu : w.UniqueCopies)
    (hs : ∀ x ∈ w.copies, x.id = snap.id → x.file = snap.file ∧ x.node = snap.node)
    (hs' : (∃ x ∈ w.copies, x.id = snap.id) ∧ (ok = true ∨ w.diskAt snap.node snap.file = none))
    (h : w.Agree tr) :
    (w.checkStep snap ok).1.Agree (tr.filter (· != (snap.node, snap.file))) := by
  rcases checkStep_cases w snap ok with ⟨v, heq, hv⟩ | ⟨_, hok, hsome⟩
  · rw [heq]
    intro x hx hnt hY
    obtain ⟨y, hy, rfl⟩ := mem_mapCopy.mp hx
    by_cases hid : y.id = snap.id
    · have hb : (y.id == snap.id) = true := by simp [hid]
      simp only [hb, if_true] at hY ⊢
      exact AgreeAt_congr (w := w) rfl rfl (hv hY)
    · have hb : (y.id == snap.id) = false := by simp [hid]
      simp only [hb] at hY hnt ⊢
      have hk : (y.node, y.file) ≠ (snap.node, snap.file) := by
        intro e
        have e1 : y.node = snap.node := congrArg Prod.fst e
        have e2 : y.file = snap.file := congrArg Prod.snd e
        obtain ⟨z, hz, hzid⟩ := hs'.1
        obtain ⟨hzf, hzn⟩ := hs z hz hzid
        have := eq_of_key_eq hu hy hz (e2.trans hzf.symm) (e1.trans hzn.symm)
        subst this
        exact hid hzid
      exact AgreeAt_congr (w := w) rfl rfl (h y hy (not_mem_filter_ne hnt hk) hY)
  · exfalso
    rcases hs'.2 with h1 | h1
    · rw [h1] at hok; cases hok
    · rw [h1] at hsome; cases hsome

end World

namespace World

theorem paRow_node (pcs : List PCopy) (c : WCopy) : (paRow pcs c).node = c.node := (paRow_frame pcs c).2.1
theorem paRow_file (pcs : List PCopy) (c : WCopy) : (paRow pcs c).file = c.file := (paRow_frame pcs c).1
theorem paRow_has (pcs : List PCopy) (c : WCopy) : (paRow pcs c).has = c.has := (paRow_frame pcs c).2.2.2.1
theorem paRow_id (pcs : List PCopy) (c : WCopy) : (paRow pcs c).id = c.id := (paRow_frame pcs c).2.2.1

theorem pullFailWorld_files (w : World) (r : WReq) (dest : Nat) (chk : Bool) :
    (pullFailWorld w r dest chk).files = w.files := by
  unfold pullFailWorld
  split
  · split <;> rfl
  · rfl

theorem pullFailWorld_mem_Y (w : World) (r : WReq) (dest : Nat) (chk : Bool) :
    ∀ x ∈ (pullFailWorld w r dest chk).copies, x.has = .Y → x ∈ w.copies := by
  unfold pullFailWorld
  split
  · split
    · intro x hx hY
      obtain ⟨y, hy, rfl⟩ := mem_mapCopy.mp hx
      split at hY
      · cases hY
      · rename_i hid
        rw [if_neg hid]; exact hy
    · intro x hx _; exact hx
  · intro x hx _; exact hx

theorem pullFailWorld_diskAt_off (w : World) (r : WReq) (dest : Nat) (chk : Bool) (n f : Nat)
    (hk : (n, f) ≠ (dest, r.file)) : (pullFailWorld w r dest chk).diskAt n f = w.diskAt n f := by
  unfold pullFailWorld
  split
  · split
    · rw [diskAt_congr (mapCopy_disk ..), diskAt_setDisk, if_neg hk]
    · rw [diskAt_setDisk, if_neg hk]
  · rw [diskAt_setDisk, if_neg hk]

theorem Agree_pull (w : World) (tr : Tracked) (r : WReq) (dest : Nat) (t : Transfer) (hwf : w.WellFormed)
    (hs' : w.filecopyState r.file dest ≠ .Y) (h : w.Agree tr) :
    (w.pullTask r dest t).1.Agree (trackStep w tr (.pull r dest t)) := by
  have hs'' : ¬ ((w.filecopyState r.file dest == .Y) = true) := by simpa using hs'
  have noY : ∀ y ∈ w.copies, (y.node, y.file) = (dest, r.file) → y.has ≠ .Y := by
    intro y hy e hY
    have e1 : y.node = dest := congrArg Prod.fst e
    have e2 : y.file = r.file := congrArg Prod.snd e
    have := filecopyState_of_mem w hwf.uniq y hy
    rw [e1, e2, hY] at this
    exact hs' this
  have same : w.Agree (trackStep w tr (.pull r dest t)) := by
    intro x hx hnt hY
    exact h x hx (trackStep_pull_off hnt (fun e => noY x hx e hY)) hY
  by_cases ht : t = .ok
  · subst ht
    cases hb : w.diskAt r.nodeFrom r.file with
    | none =>
      have : w.pullTask r dest .ok = (w, []) := by
        unfold pullTask
        rw [if_neg hs'']
        simp only [hb]
      rw [this]; exact same
    | some bytes =>
      rw [pullTask_ok_eq w r dest bytes hs' hb]
      intro x hx hnt hY
      show AgreeAt _ _ _
      rw [applyPostAdd_copies] at hx
      obtain ⟨y, hy, rfl⟩ := List.mem_map.mp hx
      simp only [paRow_node, paRow_file, paRow_has] at hnt hY ⊢
      have hy2 : y ∈ ((w.setDisk dest r.file (some bytes)).upsertHealthy r.file dest).copies := hy
      have hfiles : ((pullOkPre w r dest bytes).applyPostAdd dest r.file).1.files = w.files :=
        upsertHealthy_files (w.setDisk dest r.file (some bytes)) r.file dest
      have hdisk : ∀ n f, ((pullOkPre w r dest bytes).applyPostAdd dest r.file).1.diskAt n f =
          if (n, f) = (dest, r.file) then some bytes else w.diskAt n f := by
        intro n f
        rw [diskAt_congr (pullOkPre_disk ..), diskAt_setDisk]
      by_cases hk : (y.node, y.file) = (dest, r.file)
      · obtain ⟨hsrc, hsY⟩ := trackStep_pull_on (hk ▸ hnt)
        unfold filecopyState at hsY
        cases hc : w.copyAt r.file r.nodeFrom with
        | none => rw [hc] at hsY; cases hsY
        | some c0 =>
          rw [hc] at hsY
          obtain ⟨hcm, hcf, hcn⟩ := copyAt_some hc
          obtain ⟨d0, hd0, hlen⟩ := h c0 hcm (by rw [hcn, hcf]; exact hsrc) hsY
          rw [hcn, hcf, hb] at hd0
          cases hd0
          have e1 : y.node = dest := congrArg Prod.fst hk
          have e2 : y.file = r.file := congrArg Prod.snd hk
          rw [e1, e2]
          refine ⟨bytes, ?_, ?_⟩
          · rw [hdisk, if_pos rfl]
          · intro s hs
            apply hlen
            rw [hcf, ← fileSize_congr hfiles]
            exact hs
      · rcases upsertHealthy_mem (w := w.setDisk dest r.file (some bytes)) hwf.ids r.file dest hy2 with hm | ⟨hf, hn, _⟩
        · have hm' : y ∈ w.copies := hm
          refine AgreeAt_congr hfiles ?_ (h y hm' (trackStep_pull_off hnt hk) hY)
          rw [hdisk, if_neg hk]
        · exact absurd (by rw [hf, hn]) hk
  · by_cases hr : t = .noRoute
    · subst hr
      have : w.pullTask r dest .noRoute = (w, []) := by
        unfold pullTask
        rw [if_neg hs'']
      rw [this]; exact same
    · rw [pullTask_fail_eq w r dest t hs' ht hr]
      intro x hx hnt hY
      have hx' := pullFailWorld_mem_Y w r dest _ x hx hY
      show AgreeAt _ _ _
      refine AgreeAt_congr (pullFailWorld_files ..) ?_
        (h x hx' (trackStep_pull_off hnt (fun e => noY x hx' e hY)) hY)
      exact pullFailWorld_diskAt_off _ _ _ _ _ _ (fun e => noY x hx' e hY)

theorem Agree_pull' (w : World) (tr : Tracked) (r : WReq) (dest : Nat) (t : Transfer) (hwf : w.WellFormed)
    (hs' : w.filecopyState r.file dest = .Y → w.AgreeAt dest r.file) (h : w.Agree tr) :
    (w.pullTask r dest t).1.Agree (trackStep w tr (.pull r dest t)) := by
  by_cases hY : w.filecopyState r.file dest = .Y
  · have hb : (w.filecopyState r.file dest == .Y) = true := by simp [hY]
    have : w.pullTask r dest t =
        (w.mapReq r.id (fun x => { x with cancelled := true }), [.reqCancelled r.id]) := by
      unfold pullTask
      rw [if_pos hb]
    rw [this]
    intro x hx hnt hxY
    show AgreeAt _ _ _
    refine AgreeAt_congr (w := w) rfl rfl ?_
    by_cases hk : (x.node, x.file) = (dest, r.file)
    · have e1 : x.node = dest := congrArg Prod.fst hk
      have e2 : x.file = r.file := congrArg Prod.snd hk
      rw [e1, e2]
      exact hs' hY
    · exact h x hx (trackStep_pull_off hnt hk) hxY
  · exact Agree_pull w tr r dest t hwf hY h

/-- **agreement, one step** (under the side conditions `OpWF` and `StepOK'`) -/
theorem Agree_wstep (w : World) (tr : Tracked) (op : WOp) (hwf : w.WellFormed) (hs : OpWF w op)
    (hs' : StepOK' w op) (h : w.Agree tr) : (w.wstep op).1.Agree (trackStep w tr op) := by
  cases op with
  | deleteOne c uf => exact Agree_deleteOne w tr c uf hwf.uniq hs' h
  | check snap ok => exact Agree_check w tr snap ok hwf.uniq hs hs' h
  | decide r sr =>
    show (w.applyDecision r (w.updatePull r sr)).1.Agree tr
    unfold applyDecision
    split <;> exact h
  | search r d od => exact Agree_search w tr r d od h
  | pull r d t => exact Agree_pull' w tr r d t hwf hs' h
  | opSetCopy id hh wn => exact Agree_opSetCopy w tr id hh wn hwf.ids h
  | opAddReq f nf gt => exact h
  | opCancelReq id => exact h
  | opAddCopy f n hh wn => exact Agree_opAddCopy w tr f n hh wn h
  | fault n f c => exact Agree_fault w tr n f c h
  | measure n a => exact h

end World

/-! ### C08.3 / C08.4 / rows persist -/

namespace World

theorem deleteOne_gone (w : World) (c : WCopy) (uf : Bool)
    (h : Eff.setCopy c.id .N .N ∈ (w.deleteOne c uf).2) :
    (w.deleteOne c uf).1.diskAt c.node c.file = none := by
  unfold deleteOne at h ⊢
  by_cases h1 : w.archiveCount c.file < copiesRequired (w.isArchive c.node)
  · rw [if_pos h1] at h; simp at h
  · rw [if_neg h1] at h ⊢
    cases uf with
    | true => simp at h
    | false =>
      simp only [Bool.false_eq_true, if_false]
      rw [diskAt_congr (mapCopy_disk ..), diskAt_setDisk, if_pos rfl]

theorem upsertHealthy_nodes (w : World) (f n : Nat) : (w.upsertHealthy f n).nodes = w.nodes := by
  unfold upsertHealthy; split <;> rfl

theorem pullTask_completed_has_copy (w : World) (r : WReq) (dest : Nat) (t : Transfer)
    (hg : w.groupOfNode dest = some r.groupTo)
    (h : Eff.reqCompleted r.id ∈ (w.pullTask r dest t).2) :
    ∃ c ∈ (w.pullTask r dest t).1.copies, c.file = r.file ∧
      (w.pullTask r dest t).1.groupOfNode c.node = some r.groupTo := by
  obtain ⟨rfl, hne, bytes, hb⟩ := pullTask_completed w r dest t h
  rw [pullTask_ok_eq w r dest bytes hne hb]
  obtain ⟨c, hc, hf, hn, _⟩ := upsertHealthy_row (w.setDisk dest r.file (some bytes)) r.file dest
  have hc' : c ∈ (pullOkPre w r dest bytes).copies := hc
  have hnodes : ((pullOkPre w r dest bytes).applyPostAdd dest r.file).1.nodes = w.nodes :=
    upsertHealthy_nodes (w.setDisk dest r.file (some bytes)) r.file dest
  refine ⟨paRow (postAdd (pullOkPre w r dest bytes).toPNodes (pullOkPre w r dest bytes).edges
    (pullOkPre w r dest bytes).toPCopies dest r.file).2 c, ?_, ?_, ?_⟩
  · show _ ∈ ((pullOkPre w r dest bytes).applyPostAdd dest r.file).1.copies
    rw [applyPostAdd_copies]; exact List.mem_map.mpr ⟨c, hc', rfl⟩
  · rw [paRow_file]; exact hf
  · rw [paRow_node, hn]
    show ((pullOkPre w r dest bytes).applyPostAdd dest r.file).1.groupOfNode dest = _
    unfold groupOfNode node?
    rw [hnodes]
    exact hg

theorem mapCopy_persist {w : World} {id : Nat} {g : WCopy → WCopy} (hg : ∀ c, c.id = id → (g c).id = c.id)
    {x : WCopy} (hx : x ∈ w.copies) : ∃ y ∈ (w.mapCopy id g).copies, y.id = x.id := by
  refine ⟨if x.id == id then g x else x, mem_mapCopy.mpr ⟨x, hx, rfl⟩, ?_⟩
  split
  · rename_i hb; exact hg x (by simpa using hb)
  · rfl

theorem upsertHealthy_persist {w : World} (f n : Nat) {x : WCopy} (hx : x ∈ w.copies) :
    ∃ y ∈ (w.upsertHealthy f n).copies, y.id = x.id := by
  unfold upsertHealthy
  split
  · refine mapCopy_persist ?_ hx; exact fun _ _ => rfl
  · exact ⟨x, List.mem_append_left _ hx, rfl⟩

theorem applyPostAdd_persist {w : World} (n f : Nat) {x : WCopy} (hx : x ∈ w.copies) :
    ∃ y ∈ (w.applyPostAdd n f).1.copies, y.id = x.id := by
  rw [applyPostAdd_copies]
  exact ⟨_, List.mem_map.mpr ⟨x, hx, rfl⟩, paRow_id _ x⟩

theorem wstep_rows_persist (w : World) (op : WOp) (x : WCopy) (hx : x ∈ w.copies) :
    ∃ y ∈ (w.wstep op).1.copies, y.id = x.id := by
  have keep : ∃ y ∈ w.copies, y.id = x.id := ⟨x, hx, rfl⟩
  cases op with
  | deleteOne c uf =>
    show ∃ y ∈ (w.deleteOne c uf).1.copies, y.id = x.id
    unfold deleteOne
    split
    · exact keep
    · split
      · exact keep
      · refine mapCopy_persist (w := w.setDisk c.node c.file none) ?_ hx; exact fun _ _ => rfl
  | check snap ok =>
    show ∃ y ∈ (w.checkStep snap ok).1.copies, y.id = x.id
    unfold checkStep
    dsimp only
    split
    · exact keep
    · refine mapCopy_persist ?_ hx; exact fun _ h => h.symm
  | decide r sr =>
    show ∃ y ∈ (w.applyDecision r (w.updatePull r sr)).1.copies, y.id = x.id
    unfold applyDecision
    split <;> exact keep
  | search r d od =>
    show ∃ y ∈ (w.groupSearch r d od).1.copies, y.id = x.id
    unfold groupSearch
    split
    · exact keep
    · exact keep
    · split
      · split
        · refine mapCopy_persist ?_ hx; exact fun _ _ => rfl
        · exact ⟨x, List.mem_append_left _ hx, rfl⟩
      · exact keep
  | pull r d t =>
    show ∃ y ∈ (w.pullTask r d t).1.copies, y.id = x.id
    unfold pullTask
    split
    · exact keep
    · cases t with
      | noRoute => exact keep
      | failedNoCheck => exact keep
      | failedCheckSrc =>
        dsimp only
        split
        · refine mapCopy_persist (w := w.setDisk d r.file none) ?_ hx; exact fun _ _ => rfl
        · exact keep
      | digestMismatch =>
        dsimp only
        split
        · refine mapCopy_persist (w := w.setDisk d r.file none) ?_ hx; exact fun _ _ => rfl
        · exact keep
      | ok =>
        dsimp only
        split
        · exact keep
        · rename_i bytes _
          obtain ⟨y, hy, hyid⟩ := upsertHealthy_persist (w := w.setDisk d r.file (some bytes)) r.file d hx
          obtain ⟨z, hz, hzid⟩ := applyPostAdd_persist
            (w := ((w.setDisk d r.file (some bytes)).upsertHealthy r.file d).mapReq r.id
              (fun x => { x with completed := true })) d r.file hy
          exact ⟨z, hz, hzid.trans hyid⟩
  | opSetCopy id hs wn => refine mapCopy_persist ?_ hx; exact fun _ _ => rfl
  | opAddReq f nf gt => exact keep
  | opCancelReq id => exact keep
  | opAddCopy f n hs wn =>
    simp only [wstep]
    split
    · exact keep
    · exact ⟨x, List.mem_append_left _ hx, rfl⟩
  | fault n f c => exact keep
  | measure n a => exact keep

end World

end Alpen
