import Alpen.Model.Str
import Alpen.Model.Walker
import Alpen.Model.Clean
import Alpen.Model.PostAdd
import Alpen.Model.Check
import Alpen.Model.Reserve
import Alpen.Model.Busy
import Alpen.Model.UpDown
import Alpen.Model.Queue
import Alpen.Model.Task
import Alpen.Model.Retry
import Alpen.Model.WorldOps
import Alpen.Model.Daemon
import Alpen.Model.Import
import Alpen.Model.Cli
import Alpen.Model.Hsm
import Alpen.Model.Transport
import Alpen.Model.FileWalk
/-!
Line-protocol driver: one operation per line on stdin, one canonical answer line on
stdout.  Strings travel as comma-separated code points (`-` = empty string).
Core Lean only (so this links as a `lean_exe`).
-/
open Alpen

namespace Drv

def decStr (t : String) : Option Str :=
  if t = "-" then some [] else
  (t.splitOn ",").mapM (fun x => x.toNat?.map Char.ofNat)

def encStr (s : Str) : String :=
  if s.isEmpty then "-" else ",".intercalate (s.map (fun c => toString c.toNat))

def decOptStr (t : String) : Option (Option Str) :=
  if t = "none" then some none else (decStr t).map some

def encBool (b : Bool) : String := if b then "1" else "0"

def decNats (t : String) : Option (List Nat) :=
  if t = "-" then some [] else (t.splitOn ",").mapM (·.toNat?)

def encNats (l : List Nat) : String :=
  if l.isEmpty then "-" else ",".intercalate (l.map toString)

def insertSorted0 (x : Nat) : List Nat → List Nat
  | [] => [x]
  | y :: ys => if x ≤ y then x :: y :: ys else y :: insertSorted0 x ys
def sortNats (l : List Nat) : List Nat := l.foldl (fun acc x => insertSorted0 x acc) []

def decBool (t : String) : Option Bool :=
  if t = "1" then some true else if t = "0" then some false else none

def decInt (t : String) : Option Int := t.toInt?

def decOptNat (t : String) : Option (Option Nat) :=
  if t = "-" then some none else t.toNat?.map some

def decOptInt (t : String) : Option (Option Int) :=
  if t = "-" then some none else t.toInt?.map some

/-- records separated by `,`, fields by `:` -/
def decRecs {α} (f : List String → Option α) (t : String) : Option (List α) :=
  if t = "-" then some [] else (t.splitOn ",").mapM (fun x => f (x.splitOn ":"))

def decDCopy : List String → Option DCopy
  | [i, f, h, w, s, fs] => do
      pure ⟨← i.toNat?, ← f.toNat?, ← Has.ofString h, ← Wants.ofString w, ← decOptNat s, ← decOptNat fs⟩
  | _ => none

def decKCopy : List String → Option KCopy
  | [i, f, h, w, s] => do pure ⟨← i.toNat?, ← f.toNat?, ← Has.ofString h, ← Wants.ofString w, ← decOptNat s⟩
  | _ => none
def decKReq : List String → Option KReq
  | [f, a, b, c, x] => do pure ⟨← f.toNat?, ← a.toNat?, ← b.toNat?, ← decBool c, ← decBool x⟩
  | _ => none

def decLfsRun (t : String) : Option LfsRun :=
  if t = "missing" then some .missing else if t = "failed" then some .failed else if t = "timeout" then some .timeout
  else if t.startsWith "ok:" then (decStr (t.drop 3).toString).map LfsRun.ok else none

def decHsm (t : String) : Option (Option HsmState) :=
  match t with
  | "-" => some none | "missing" => some (some .missing) | "unarchived" => some (some .unarchived)
  | "restored" => some (some .restored) | "restoring" => some (some .restoring) | "released" => some (some .released) | _ => none

def hsmStr : Option HsmState → String
  | none => "-" | some .missing => "missing" | some .unarchived => "unarchived" | some .restored => "restored"
  | some .restoring => "restoring" | some .released => "released"

def decRCopy : List String → Option RCopy
  | [i, s, st] => do pure ⟨← i.toNat?, ← s.toNat?, ← decHsm st⟩
  | _ => none

def decPNode : List String → Option PNode
  | [i, g] => do pure ⟨← i.toNat?, ← g.toNat?⟩
  | _ => none
def decPEdge : List String → Option PEdge
  | [i, a, b, s, c] => do pure ⟨← i.toNat?, ← a.toNat?, ← b.toNat?, ← decBool s, ← decBool c⟩
  | _ => none
def decPCopy : List String → Option PCopy
  | [i, f, n, h, w] => do pure ⟨← i.toNat?, ← f.toNat?, ← n.toNat?, ← Has.ofString h, ← Wants.ofString w⟩
  | _ => none

def decSeg (t : String) : Option Seg :=
  match t.splitOn "/" with
  | [regs, ending] => do
      let rs ← if regs = "-" then some [] else (regs.splitOn ".").mapM (fun r =>
        if r.endsWith "f" then (r.dropEnd 1).toString.toNat?.map (fun n => (n, true))
        else if r.endsWith "l" then (r.dropEnd 1).toString.toNat?.map (fun n => (n, false)) else none)
      let e ← if ending = "d" then some SegEnd.done
        else if ending = "e" then some SegEnd.dbError
        else if ending = "x" then some SegEnd.otherError
        else if ending = "yN" then some (SegEnd.yield none)
        else if ending.startsWith "y" then (ending.drop 1).toString.toNat?.map (fun n => SegEnd.yield (some n))
        else none
      pure ⟨rs, e⟩
  | _ => none

def tevStr : TEv → String
  | .cleanupStarted i => s!"c{i}"
  | .reput k e w => s!"P:{k}:{encBool e}:{w}"
  | .taskDone k => s!"D:{k}"
  | .requeued k e => s!"Q:{k}:{encBool e}"
  | .abort => "A"
  | .workerExit c => s!"X{c}"

/-- iterate `workerHandle` while the task yields -/
def taskRun (beh : Nat → CleanBeh) : Nat → TaskSt → List TEv
  | 0, _ => []
  | fuel + 1, t =>
    let (t', evs) := workerHandle beh t
    let yielded := evs.any (fun e => match e with | .reput _ _ _ => true | _ => false)
    let exited := evs.any (fun e => match e with | .workerExit _ => true | _ => false)
    if yielded && !exited then evs ++ taskRun beh fuel t' else evs

/-- `id:int` pairs -/
def decPairsNI (t : String) : Option (List (Nat × Int)) :=
  if t = "-" then some [] else
  (t.splitOn ",").mapM (fun x => match x.splitOn ":" with
    | [a, b] => do pure (← a.toNat?, ← b.toInt?)
    | _ => none)

/-- file tree in preorder: tokens `name:F` `name:S` `name:O` `name:D:k` `name:L:k` (k children follow) -/
partial def parseFsEntry : List String → Option ((String × FsNode) × List String)
  | [] => none
  | tok :: rest =>
    match tok.splitOn ":" with
    | [n, "F"] => some ((n, .file), rest)
    | [n, "S"] => some ((n, .symFile), rest)
    | [n, "O"] => some ((n, .other), rest)
    | [n, k, c] => do
        let sym ← (match k with | "D" => some false | "L" => some true | _ => none)
        let c ← c.toNat?
        let rec go (i : Nat) (acc : List (String × FsNode)) (toks : List String) :
            Option (List (String × FsNode) × List String) :=
          match i with
          | 0 => some (acc.reverse, toks)
          | i + 1 => do
              let (e, toks') ← parseFsEntry toks
              go i (e :: acc) toks'
        let (cs, rest') ← go c [] rest
        pure ((n, .dir sym cs), rest')
    | _ => none

def pure1 (toks : List String) : Option String :=
  match toks with
  | ["iip", s] => do
      let s ← decStr s
      match invalidImportPath s with
      | none => pure "none"
      | some i => pure s!"some {i}"
  | ["normpath", s] => do
      let s ← decStr s
      pure (encStr (normpath s))
  | ["canon", s] => do
      let s ← decStr s
      pure (encBool (decide (Canonical s)))
  | ["fwalk", pfx, top] => do
      let pfx := if pfx = "-" then [] else pfx.splitOn "/"
      let top ← (match top with
        | "absolute" => some WalkTop.absolute
        | "missing" => some WalkTop.missing
        | t => do
            let (e, rest) ← parseFsEntry (t.splitOn ",")
            if rest.isEmpty then some (WalkTop.at e.2) else none)
      match fileWalk pfx top with
      | none => pure "valueError"
      | some ps => pure ("ok " ++ (if ps.isEmpty then "-" else ",".intercalate (ps.map (fun p => "/".intercalate p))))
  | ["walk", tbl, c, k] => do
      let tbl ← decNats tbl; let c ← c.toNat?; let k ← k.toNat?
      match walkerGet tbl c k with
      | .valueError => pure "valueError"
      | .doesNotExist => pure "doesNotExist"
      | .ok items c' => pure s!"ok {encNats items} {c'}"
  | ["avsel", now, minDays, batch] => do
      let now ← decInt now; let md ← decInt minDays; let b ← decPairsNI batch
      pure (encNats (autoVerifySelect now md b))
  | ["seldel", avail, minK, arch, pend, copies] => do
      let a ← decOptInt avail; let m ← decInt minK; let ar ← decBool arch
      let p ← decNats pend; let cs ← decRecs decDCopy copies
      let sel := selectDelete a m ar (fun f => p.contains f) cs
      let bs := batches10 sel
      pure (if bs.isEmpty then "-" else "|".intercalate (bs.map (fun b => encNats (b.map (·.id)))))
  | ["postadd", nodes, edges, copies, node, file] => do
      let ns ← decRecs decPNode nodes; let es ← decRecs decPEdge edges; let cs ← decRecs decPCopy copies
      let n ← node.toNat?; let f ← file.toNat?
      let (reqs, cs') := postAdd ns es cs n f
      let rs := if reqs.isEmpty then "-" else ",".intercalate (reqs.map (fun r => s!"{r.file}:{r.nodeFrom}:{r.groupTo}"))
      let cc := if cs'.isEmpty then "-" else ",".intercalate (cs'.map (fun c => s!"{c.id}:{c.has.toString}:{c.wants.toString}"))
      pure s!"{rs} {cc}"
  | ["stateon", nodes, copies, group, file] => do
      let ns ← decRecs decPNode nodes; let cs ← decRecs decPCopy copies
      pure (stateOnNode ns cs (← group.toNat?) (← file.toNat?)).toString
  | ["verdict", ex, st, len, dig, rsz, rdg] => do
      let dg ← decOptStr dig
      let o : Observed := ⟨← decBool ex, ← decBool st, ← len.toNat?, dg⟩
      let rs ← decOptNat rsz
      let rd ← decOptStr rdg
      pure (match checkVerdict o rs rd with | none => "none" | some h => h.toString)
  | ["md5lens", bs, bpc, len] => do
      let bs ← bs.toNat?; let bpc ← bpc.toNat?; let len ← len.toNat?
      let content : Bytes := List.replicate len 0
      pure (encNats ((md5Blocks bs bpc (len + 1) content).map List.length))
  | ["valmd5", s] => do
      let s ← decStr s
      pure (match validateMd5 s with | none => "none" | some d => encStr d)
  | ["imp", ur, ir, im, rg, dn, lk, det, reg, ae, fe, cp] => do
      let d ← match det with
        | "none" => some Detect.none | "ok" => some .ok | "invalidName" => some .invalidName | "notAncestor" => some .notAncestor | _ => none
      let c ← if cp = "-" then some none else match cp.splitOn ":" with
        | [h, w] => do pure (some (← Has.ofString h, ← Wants.ofString w))
        | _ => none
      let i : ImpIn := ⟨← decBool ur, ← decBool ir, ← decBool im, ← decBool rg, ← decBool dn, ← decBool lk, d, ← decBool reg, ← decBool ae, ← decBool fe, c⟩
      let o := importStep i
      let r := match o.result with
        | .ignored => "ignored" | .invalid => "invalid" | .badName => "badName" | .lockedPending => "lockedPending"
        | .noDetection => "noDetection" | .badAcq => "badAcq" | .duplicate => "duplicate" | .unregistered => "unregistered" | .success => "success"
      let cs := match o.copy with | none => "-" | some (h, w) => s!"{h.toString}:{w.toString}"
      pure s!"{r} completed={encBool o.requestCompleted} newAcq={encBool o.newAcq} newFile={encBool o.newFile} copy={cs} postAdd={encBool o.postAdd}"
  | ["kclean", ib, goal, size, copies, keepf] => do
      let cs ← decRecs decKCopy copies; let kf ← decNats keepf
      let ids := nodeClean (← decBool ib) (fun c => kf.contains c.file) (← Wants.ofString goal) (← decOptNat size) cs
      pure (encNats ids)
  | ["kverify", c, h, m, copies, keepf] => do
      let cs ← decRecs decKCopy copies; let kf ← decNats keepf
      pure (encNats (nodeVerify (← decBool c) (← decBool h) (← decBool m) (fun c => kf.contains c.file) cs))
  | ["kverifycancel", copies, keepf] => do
      let cs ← decRecs decKCopy copies; let kf ← decNats keepf
      pure (encNats (nodeVerifyCancel (fun c => kf.contains c.file) cs))
  | ["ksync", copies, skipped, keepf, reqs, node, group] => do
      let cs ← decRecs decKCopy copies; let sk ← decNats skipped; let kf ← decNats keepf
      let rs ← decRecs decKReq reqs
      pure (encNats (syncSel cs (fun f => sk.contains f) (fun f => kf.contains f) rs (← node.toNat?) (← group.toNat?)))
  | ["hsmstate", path, srun, arun] => do
      pure (hsmStr (hsmStateParse (← decStr path) (← decLfsRun srun) (← decLfsRun arun)))
  | ["hsmrestoring", path, arun] => do
      pure (match hsmRestoringParse (← decStr path) (← decLfsRun arun) with | none => "-" | some b => encBool b)
  | ["rwait", rs, ss, f, st, rr] => do
      let b : Rbk := ⟨← decNats rs, ← decNats ss⟩
      let r ← if rr = "-" then some none else (decBool rr).map some
      let (b', res) := restoreWait b (← f.toNat?) (← decHsm st) r
      let rs := match res with | .wait => "wait" | .ready => "ready" | .error => "error"
      pure s!"{rs} {encNats (sortNats b'.restoring)} {encNats (sortNats b'.started)}"
  | ["hsmtask", kind, rs, ss, f, ex, answers] => do
      -- answers: st/rr,st/rr,...   (rr: 1 0 -)
      let b : Rbk := ⟨← decNats rs, ← decNats ss⟩
      let ans ← if answers = "-" then some [] else (answers.splitOn ",").mapM (fun a => match a.splitOn "/" with
        | [st, rr] => do
            let r ← if rr = "-" then some none else (decBool rr).map some
            pure ((← decHsm st), r)
        | _ => none)
      if kind = "ready" then
        let (b', r) := readyPullTask (← f.toNat?) b ans
        pure s!"{match r with | none => "waiting" | some x => encBool x} {encNats (sortNats b'.restoring)} {encNats (sortNats b'.started)}"
      else
        let (b', r) := hsmCheckTask (← f.toNat?) b (← decHsm ex) ans
        pure s!"{encBool r} {encNats (sortNats b'.restoring)} {encNats (sortNats b'.started)}"
  | ["tpick", loc, nodes] => do
      -- nodes: id:avail|-:underMin:overMax:fits
      let ns ← decRecs (fun l => match l with
        | [i, a, u, o, f] => do
            pure (⟨← i.toNat?, ← decOptInt a, ← decBool u, ← decBool o, ← decBool f⟩ : TNode)
        | _ => none) nodes
      pure (match transportPick (← decBool loc) ns with | none => "-" | some i => toString i)
  | ["gbusy", gf, nfs, reqs] => do
      let q : GroupQueues := ⟨← gf.toNat?, ← decNats nfs⟩
      pure (encNats (dispatchPass q (← decNats reqs)))
  | ["tgd", factor, size, loc, nodes] => do
      -- nodes: id:avail|-:underMin:overMax:bavail|-:reserved
      let ns ← decRecs (fun l => match l with
        | [i, a, u, o, b, r] => do
            pure (⟨← i.toNat?, ← decOptInt a, ← decBool u, ← decBool o, ← decOptInt b, ← decInt r⟩ : TGNode)
        | _ => none) nodes
      let (p, c, ns') := tgDispatch (← factor.toNat?) (← size.toNat?) (← decBool loc) ns
      pure s!"{match p with | none => "-" | some i => toString i} {encBool c} {",".intercalate (ns'.map (fun n => toString n.reserved))}"
  | ["hsmrelease", headroom, avail, copies] => do
      pure (encNats (releaseFiles (← decInt headroom) (← decOptInt avail) (← decRecs decRCopy copies)))
  | ["hsmrefresh", rd, st] => do
      pure (match refreshOne (← decBool rd) (← decHsm st) with | none => "unchanged" | some (h, r) => s!"{h.toString}:{encBool r}")
  | ["hsmopen", st] => do pure (encBool (hsmOpenOk (← decHsm st)))
  | ["cmdupd", c, f, s, y] => do
      pure (encBool (commandUpdates (← decBool c) (← decBool f) (← decBool s) (← decBool y)))
  | ["retry", ac, tx, cl, o0, o1] => do
      let o0 ← decBool o0; let o1 ← decBool o1
      let (evs, r) := retryExecute (← decBool ac) (← decBool tx) (← decBool cl) (fun i => if i = 0 then o0 else o1)
      let es := evs.map (fun e => match e with | .attempt ok => s!"a{encBool ok}" | .close => "close")
      pure s!"{" ".intercalate es} -> {encBool r}"
  | ["t.run", key, excl, rq, segs, dbIds, otherIds] => do
      let segs ← if segs = "-" then some [] else (segs.splitOn ";").mapM decSeg
      let db ← decNats dbIds; let ot ← decNats otherIds
      let beh : Nat → CleanBeh := fun i => if ot.contains i then .otherError else if db.contains i then .dbError else .ok
      let t : TaskSt := ⟨← key.toNat?, ← decBool excl, ← decBool rq, segs, []⟩
      let evs := taskRun beh (segs.length + 2) t
      pure (if evs.isEmpty then "-" else " ".intercalate (evs.map tevStr))
  | _ => none

end Drv

namespace Drv

/-- state of the stateful models driven over several lines -/
structure St where
  ud : UD := UD.init
  udThreads : List Nat := []      -- thread ids seen (for dumps)
  q : Q := Q.init
  qKeys : List Nat := []
  w : World := ⟨[], [], [], [], [], [], [], 100000⟩
  rs : RState := RState.init
  rfactor : Nat := 2

def uoutStr : UOut → String
  | .acquired => "acquired" | .refused => "refused" | .timedOut => "timedOut" | .parked => "parked"
  | .error => "error" | .released => "released" | .ignored => "ignored"

def noteThread (s : St) (t : Nat) : St :=
  if s.udThreads.contains t then s else { s with udThreads := s.udThreads ++ [t] }


def udDump (s : St) : String :=
  let ts := sortNats s.udThreads
  let own := ts.filterMap (fun t => if s.ud.owners t > 0 then some s!"{t}:{s.ud.owners t}" else none)
  let prk := ts.filterMap (fun t => match s.ud.parked t with
    | some p => some s!"{t}:{encBool p.isDown}:{encBool p.notified}" | none => none)
  let o := if own.isEmpty then "-" else ",".intercalate own
  let p := if prk.isEmpty then "-" else ",".intercalate prk
  s!"count={s.ud.count} owners={o} parked={p} clock={s.ud.clock}"

def decWCopy : List String → Option WCopy
  | [i, f, n, h, wn, r] => do pure ⟨← i.toNat?, ← f.toNat?, ← n.toNat?, ← Has.ofString h, ← Wants.ofString wn, ← decBool r⟩
  | _ => none
def decWReq : List String → Option WReq
  | [i, f, a, b, c, x] => do pure ⟨← i.toNat?, ← f.toNat?, ← a.toNat?, ← b.toNat?, ← decBool c, ← decBool x⟩
  | _ => none
def decTransfer : String → Option World.Transfer
  | "ok" => some .ok | "digestMismatch" => some .digestMismatch | "failedCheckSrc" => some .failedCheckSrc
  | "failedNoCheck" => some .failedNoCheck | "noRoute" => some .noRoute | _ => none

def decWOp : List String → Option WOp
  | ["deleteOne", c, uf] => do pure (.deleteOne (← decWCopy (c.splitOn ":")) (← decBool uf))
  | ["check", c, ok] => do pure (.check (← decWCopy (c.splitOn ":")) (← decBool ok))
  | ["decide", r, sr] => do pure (.decide (← decWReq (r.splitOn ":")) (← decBool sr))
  | ["search", r, d, od] => do pure (.search (← decWReq (r.splitOn ":")) (← d.toNat?) (← decBool od))
  | ["pull", r, d, t] => do pure (.pull (← decWReq (r.splitOn ":")) (← d.toNat?) (← decTransfer t))
  | ["opSetCopy", i, h, wn] => do pure (.opSetCopy (← i.toNat?) (← Has.ofString h) (← Wants.ofString wn))
  | ["opAddReq", f, a, b] => do pure (.opAddReq (← f.toNat?) (← a.toNat?) (← b.toNat?))
  | ["opCancelReq", i] => do pure (.opCancelReq (← i.toNat?))
  | ["opAddCopy", f, n, h, wn] => do pure (.opAddCopy (← f.toNat?) (← n.toNat?) (← Has.ofString h) (← Wants.ofString wn))
  | ["fault", n, f, len, dg] => do pure (.fault (← n.toNat?) (← f.toNat?) (some ⟨← len.toNat?, ← dg.toNat?⟩))
  | ["fault", n, f] => do pure (.fault (← n.toNat?) (← f.toNat?) none)
  | ["measure", n, a] => do pure (.measure (← n.toNat?) (← decOptInt a))
  | _ => none

def effStr : Eff → String
  | .unlink n f => s!"unlink:{n}:{f}"
  | .write n f c => s!"write:{n}:{f}:{c.len}:{c.digest}"
  | .setCopy i h wn => s!"setCopy:{i}:{h.toString}:{wn.toString}"
  | .newCopy f n h => s!"newCopy:{f}:{n}:{h.toString}"
  | .reqCompleted i => s!"reqCompleted:{i}"
  | .reqCancelled i => s!"reqCancelled:{i}"
  | .newReq f a b => s!"newReq:{f}:{a}:{b}"
  | .sourceSuspect f n => s!"sourceSuspect:{f}:{n}"

def decisionStr : World.PullDecision → String
  | .cancelPresent => "cancelPresent" | .skipDestSuspect => "skipDestSuspect" | .skipSourceInactive => "skipSourceInactive"
  | .cancelSourceMissing => "cancelSourceMissing" | .skipSourceSuspect => "skipSourceSuspect" | .skipNotReady => "skipNotReady"
  | .dispatch f => "dispatch:" ++ encBool f

def insertSortedS (x : String) : List String → List String
  | [] => [x]
  | y :: ys => if x ≤ y then x :: y :: ys else y :: insertSortedS x ys
def sortStrs (l : List String) : List String := l.foldl (fun acc x => insertSortedS x acc) []

/-- canonical dump: rows without ids, sorted (ids of rows created by the model differ from the database's) -/
def worldDump (w : World) : String :=
  let pad (n : Nat) : String := let s := toString n; "".pushn '0' (6 - s.length) ++ s
  let cs := sortStrs (w.copies.map (fun c => s!"{pad c.file}:{pad c.node}:{c.has.toString}:{c.wants.toString}:{encBool c.ready}"))
  let rs := sortStrs (w.reqs.map (fun r => s!"{pad r.file}:{pad r.nodeFrom}:{pad r.groupTo}:{encBool r.completed}:{encBool r.cancelled}"))
  let ds := sortStrs (w.disk.map (fun e => s!"{pad e.1.1}:{pad e.1.2}:{e.2.len}:{e.2.digest}"))
  s!"copies={",".intercalate cs} reqs={",".intercalate rs} disk={",".intercalate ds}"

def stateful (s : St) (toks : List String) : Option (St × String) :=
  match toks with
  | ["u.reset"] => some ({ s with ud := UD.init, udThreads := [] }, "ok")
  | ["u.acq", t, d, b, to] => do
      let t ← t.toNat?; let d ← decBool d; let b ← decBool b; let to ← decOptNat to
      let (ud', o) := ustep s.ud (.acq t d b to)
      pure (noteThread { s with ud := ud' } t, uoutStr o)
  | ["u.wake", t] => do
      let t ← t.toNat?
      let (ud', o) := ustep s.ud (.wake t)
      pure ({ s with ud := ud' }, uoutStr o)
  | ["u.rel", t, d] => do
      let t ← t.toNat?; let d ← decBool d
      let (ud', o) := ustep s.ud (.rel t d)
      pure (noteThread { s with ud := ud' } t, uoutStr o)
  | ["u.tick", dt] => do
      let dt ← dt.toNat?
      pure ({ s with ud := (ustep s.ud (.tick dt)).1 }, "ok")
  | ["u.dump"] => some (s, udDump s)
  | ["r.reset", f] => do pure ({ s with rs := RState.init, rfactor := (← f.toNat?) }, "ok")
  | ["r.dispatch", t, size, um, om, bav] => do
      let ev := REvent.dispatch (← t.toNat?) (← size.toNat?) (← decBool um) (← decBool om) (← decOptInt bav)
      let rs' := rstep s.rfactor s.rs ev
      pure ({ s with rs := rs' }, s!"{encBool (rs'.live.length != s.rs.live.length)} {rs'.reserved}")
  | ["r.finish", t, how] => do
      let h ← match how with
        | "alreadyPresent" => some PullEnd.alreadyPresent | "noRoute" => some .noRoute
        | "transportFailed" => some .transportFailed | "digestMismatch" => some .digestMismatch
        | "success" => some .success | "dbErrorEarly" => some .dbErrorEarly | "dbErrorLate" => some .dbErrorLate | _ => none
      let rs' := rstep s.rfactor s.rs (.finish (← t.toNat?) h)
      pure ({ s with rs := rs' }, s!"{rs'.reserved} {encBool rs'.error}")
  | "w.reset" :: _ => some ({ s with w := ⟨[], [], [], [], [], [], [], 100000⟩ }, "ok")
  | ["w.node", i, g, h, a, st, av, mn, mx, rt] => do
      let n : WNode := ⟨← i.toNat?, ← g.toNat?, ← h.toNat?, ← decBool a, ← SType.ofString st, ← decOptInt av, ← decInt mn, ← decOptInt mx, ← decBool rt⟩
      pure ({ s with w := { s.w with nodes := s.w.nodes ++ [n] } }, "ok")
  | ["w.file", i, sz, md] => do
      let f : WFile := ⟨← i.toNat?, ← decOptNat sz, ← decOptNat md⟩
      pure ({ s with w := { s.w with files := s.w.files ++ [f] } }, "ok")
  | ["w.copy", i, f, n, h, wn, r] => do
      let c : WCopy := ⟨← i.toNat?, ← f.toNat?, ← n.toNat?, ← Has.ofString h, ← Wants.ofString wn, ← decBool r⟩
      pure ({ s with w := { s.w with copies := s.w.copies ++ [c] } }, "ok")
  | ["w.req", i, f, a, b, c, x] => do
      let r : WReq := ⟨← i.toNat?, ← f.toNat?, ← a.toNat?, ← b.toNat?, ← decBool c, ← decBool x⟩
      pure ({ s with w := { s.w with reqs := s.w.reqs ++ [r] } }, "ok")
  | ["w.edge", i, a, b, sy, cl] => do
      let e : PEdge := ⟨← i.toNat?, ← a.toNat?, ← b.toNat?, ← decBool sy, ← decBool cl⟩
      pure ({ s with w := { s.w with edges := s.w.edges ++ [e] } }, "ok")
  | ["w.disk", n, f, len, dg] => do
      pure ({ s with w := s.w.setDisk (← n.toNat?) (← f.toNat?) (some ⟨← len.toNat?, ← dg.toNat?⟩) }, "ok")
  | ["w.undisk", n, f] => do
      pure ({ s with w := s.w.setDisk (← n.toNat?) (← f.toNat?) none }, "ok")
  | "w.op" :: rest => do
      let op ← decWOp rest
      let (w', effs) := s.w.wstep op
      let extra := match op with
        | .decide r sr => " decision=" ++ decisionStr (s.w.updatePull r sr)
        | .search r d od => " passOn=" ++ encBool (s.w.groupSearch r d od).2.2
        | _ => ""
      pure ({ s with w := w' }, (if effs.isEmpty then "-" else " ".intercalate (effs.map effStr)) ++ extra)
  | ["w.q", "archiveCount", f] => do pure (s, toString (s.w.archiveCount (← f.toNat?)))
  | ["w.q", "elsewhere", f, n] => do pure (s, toString (s.w.archiveCountElsewhere (← f.toNat?) (← n.toNat?)))
  | ["w.q", "updateDelete", n] => do pure (s, encNats (s.w.updateDelete (← n.toNat?)))
  | ["w.q", "updateDeleteSized", n, sizes] => do
      -- same as World.updateDelete but with the copy rows' own size_b (not part of the World model) supplied by the harness
      let n ← n.toNat?
      let sz ← decRecs (fun l => match l with | [a, b] => do pure ((← a.toNat?), (← b.toNat?)) | _ => none) sizes
      match s.w.node? n with
      | none => pure (s, "-")
      | some nd =>
        let dcs := (s.w.dcopiesOf n).map (fun d => { d with size := (sz.find? (fun p => p.1 == d.id)).map (·.2) })
        pure (s, encNats ((selectDelete nd.availKiB nd.minKiB (nd.stype == .A) (fun f => s.w.pendingSource f n) dcs).map (·.id)))
  | ["w.q", "iterate", host, initd] => do
      let ini ← decNats initd
      let hv : HostView := ⟨← host.toNat?, fun n => ini.contains n⟩
      let ops := iterateOps s.w hv
      let cs := ops.filterMap (fun o => match o with | .check c _ => some c.id | _ => none)
      let ds := ops.filterMap (fun o => match o with | .deleteOne c _ => some c.id | _ => none)
      let rs := ops.filterMap (fun o => match o with | .decide r _ => some r.id | _ => none)
      let dis := ops.filterMap (fun o => match o with
        | .decide r sr => (match s.w.updatePull r sr with
            | .dispatch f => some s!"{r.file}:{r.groupTo}:{if f then 1 else 0}" | _ => none)
        | _ => none)
      pure (s, s!"check:{encNats (sortNats cs)} delete:{encNats (sortNats ds)} decide:{encNats (sortNats rs)} dispatch:{if dis.isEmpty then "-" else ",".intercalate dis}")
  | ["w.q", "initTasks", host, initd, reqs] => do
      let ini ← decNats initd
      let hv : HostView := ⟨← host.toNat?, fun n => ini.contains n⟩
      let rq ← decRecs (fun l => match l with
        | [a, b, c] => do pure (⟨← a.toNat?, ← b.toNat?, ← decBool c⟩ : InitReq) | _ => none) reqs
      let ts := initTasks s.w hv rq
      pure (s, if ts.isEmpty then "-" else ";".intercalate (ts.map (fun p => s!"{p.1}:{p.2}")))
  | ["w.q", "groupState", g, f] => do pure (s, (s.w.groupState (← g.toNat?) (← f.toNat?)).toString)
  | ["w.dump"] => some (s, worldDump s.w)
  | ["q.reset", keys] => do
      let ks ← decNats keys
      pure ({ s with q := Q.init, qKeys := ks }, "ok")
  | ["q.put", i, e, k] => do
      let it : QItem := ⟨← i.toNat?, ← decBool e⟩
      pure ({ s with q := s.q.putNow it (← k.toNat?) }, "1")
  | ["q.putd", i, e, k, w, now] => do
      let it : QItem := ⟨← i.toNat?, ← decBool e⟩
      let (q', r) := s.q.putDeferred it (← k.toNat?) (← w.toNat?) (← now.toNat?)
      pure ({ s with q := q' }, encBool r)
  | ["q.promote", now] => do
      pure ({ s with q := s.q.promote (← now.toNat?) }, "ok")
  | ["q.get", now, ch] => do
      let c ← decOptNat ch
      let (q', r) := s.q.getAttempt (← now.toNat?) s.qKeys c
      match r with
      | .none => pure ({ s with q := q' }, "none")
      | .item k it => pure ({ s with q := q' }, s!"item {k} {it.id} {encBool it.excl}")
      | .badChoice => pure ({ s with q := q' }, "badChoice")
  | ["q.done", k] => do
      match s.q.taskDone (← k.toNat?) with
      | none => pure (s, "valueError")
      | some q' => pure ({ s with q := q' }, "ok")
  | ["q.joinBegin"] => some ({ s with q := s.q.joinBegin }, "ok")
  | ["q.joinCheck", t] => do
      let (q', r) := s.q.joinCheck (← t.toNat?)
      pure ({ s with q := q' }, encBool r)
  | ["q.joinEnd"] => some ({ s with q := s.q.joinEnd }, "ok")
  | ["q.size", kind, arg] => do
      let a ← arg.toNat?
      match kind with
      | "qsize" => pure (s, toString s.q.qsize)
      | "inprogress" => pure (s, toString s.q.inprogressSize)
      | "deferred" => pure (s, toString s.q.deferredSize)
      | "fifo" => pure (s, toString (s.q.fifoSize a))
      | _ => none
  | ["q.dump"] =>
      let ks := sortNats s.qKeys
      let per := ks.filterMap (fun k => if s.q.known k then
        some s!"{k}:[{encNats ((s.q.fifo k).map (·.id))}]:{s.q.inprog k}:{encBool (s.q.locked k)}" else none)
      let kb := (List.range s.q.keysByLen).map (fun c => encNats (ks.filter (fun k => s.q.keysBy c k)))
      let df := s.q.deferrals.map (fun d => s!"{d.expiry}/{d.item.id}/{d.key}")
      some (s, s!"tq={s.q.totalQueued} ti={s.q.totalInprog} joining={encBool s.q.joining} fifos={" ".intercalate per}; keysBy={"|".intercalate kb} deferrals={",".intercalate df}")
  | _ => none

end Drv

partial def loop (h : IO.FS.Stream) (out : IO.FS.Stream) (s : Drv.St) : IO Unit := do
  let line ← h.getLine
  if line.isEmpty then return ()
  let toks := (line.trimAscii.toString.splitOn " ").filter (· ≠ "")
  match Drv.pure1 toks with
  | some r => out.putStrLn r; loop h out s
  | none =>
    match Drv.stateful s toks with
    | some (s', r) => out.putStrLn r; loop h out s'
    | none => out.putStrLn "bad-op"; loop h out s

def main : IO Unit := do
  let out ← IO.getStdout
  loop (← IO.getStdin) out {}
  out.flush
