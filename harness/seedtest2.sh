#!/bin/sh
# usage: seedtest2.sh <seed dir> <property> [more]  -- like seedtest.sh but on a scratch worktree (/tmp/seedrepo) selected through
# ALPEN_REPO, so /repo itself is never touched (checks that run concurrently against /repo are not disturbed)
d=$1; shift
W=/tmp/seedrepo
[ -d $W ] || git -C /repo worktree add --detach $W HEAD -q
cd $W || exit 2
git checkout -q -- . ; git checkout -q --detach $(git -C /repo rev-parse HEAD) 2>/dev/null
git apply "$d/patch.diff" || { echo "patch does not apply"; exit 2; }
for p in "$@"; do
  (cd /verif && ALPEN_REPO=$W timeout 1500 ./check $p --tier quick 2>&1 | grep -E "^VIOLATION|^KNOWN|quick:|INFRA" | cut -c1-300 | head -5)
done
git checkout -q -- .
/venv/bin/python /verif/harness/extract.py >/dev/null
