"""C20 — HSM: real LFS parsers, _restore_wait, release_files, idle refresh, open on a LustreHSM node vs the Lean models."""
import itertools
import json
import os

import common
import env as envmod
import world as worldmod
from common import enc

MODULE = "Alpen.Props.C20"
LFS_BIN = os.path.join(common.VERIF, "fake-tools", "lfs")
STATES = ["missing", "unarchived", "restored", "restoring", "released"]


def mk_hsm_node(e, w, name="hsm", headroom_kib=100, release_count=100, avail_kib=None):
    g = w.group("ghsm", io_class="LustreHSM")
    cfg = json.dumps({"quota_id": "q", "quota_type": "group", "headroom": headroom_kib, "lfs": LFS_BIN, "restore_wait": 5,
                      "release_check_count": release_count})
    n = w.node(name, g, io_class="LustreHSM", io_config=cfg, avail_kib=avail_kib)
    return g, n


class StubLfs:
    """python-level stand-in for the LFS object: scripted answers, call log"""
    def __init__(self, lfs_cls):
        for s in ("HSM_MISSING", "HSM_UNARCHIVED", "HSM_RESTORED", "HSM_RESTORING", "HSM_RELEASED"):
            setattr(self, s, getattr(lfs_cls, s))
        self.map = {"missing": self.HSM_MISSING, "unarchived": self.HSM_UNARCHIVED, "restored": self.HSM_RESTORED,
                    "restoring": self.HSM_RESTORING, "released": self.HSM_RELEASED, None: None}
        self.states = {}
        self.queue = []
        self.restore_result = True
        self.calls = []

    def hsm_state(self, path):
        self.calls.append(("state", str(path)))
        if self.queue:
            return self.map[self.queue.pop(0)]
        return self.map[self.states.get(str(path), "missing")]

    def hsm_restore(self, path):
        self.calls.append(("restore", str(path)))
        return self.restore_result

    # the derived questions of the real LFS class, answered from the same scripted state (each asks `hsm_state` once)
    def hsm_archived(self, path):
        return self.hsm_state(path) in (self.HSM_RESTORED, self.HSM_RESTORING, self.HSM_RELEASED)

    def hsm_released(self, path):
        return self.hsm_state(path) in (self.HSM_RELEASED, self.HSM_RESTORING)

    def hsm_restoring(self, path):
        return self.hsm_state(path) == self.HSM_RESTORING

    def hsm_release(self, path):
        # like the real one: only a restored file is released; an already released one is fine; anything else is refused
        st = self.map[self.states.get(str(path), "missing")] if not self.queue else None
        self.calls.append(("release", str(path)))
        if st is None and self.queue:
            return True              # scripted answer sequences (task stages) do not model the release
        return st in (self.HSM_RESTORED, self.HSM_RELEASED, self.HSM_RESTORING)

    def quota_remaining(self, path):
        return None


def stage_parsers(ctx):
    import alpenhorn.io.lfs as lfsmod
    paths = ["/lustre/data/f.dat", "/lustre/archived/f.dat", "/l/released_data/x", "/l/RESTORE_2024/f.dat", "/a:b/c d.dat",
             "/l/exists archived/released: RESTORE", "/x"]
    vocab = ["released", "exists", "archived", "dirty", "lost", "never_release"]
    flag_lines = []
    for k in range(len(vocab) + 1):
        for sub in itertools.combinations(vocab, k):
            flag_lines.append("(0x0000000d) " + " ".join(sub) + (", archive_id:7" if "archived" in sub else ""))
    if ctx.quick():
        flag_lines = flag_lines[::2]
    actions = ["NOOP", "RESTORE running", "RESTORE waiting", "ARCHIVE running", "", "REMOVE succeeded"]
    lfs = lfsmod.LFS("q", "group", lfs=LFS_BIN)
    script = []
    real_run = lfsmod.util.run_command

    def fake_run(cmd, timeout=None, **kw):
        return script.pop(0)
    lfsmod.util.run_command = fake_run
    ops, reals, metas = [], [], []
    try:
        for p in paths:
            for fl in flag_lines:
                for ac in actions[: (3 if ctx.quick() else len(actions))]:
                    for wrong_prefix in (False, True) if fl is flag_lines[0] else (False,):
                        sout = (p if not wrong_prefix else "/other") + ": " + fl
                        aout = p + ": " + ac
                        script[:] = [(0, sout, ""), (0, aout, "")]
                        r = lfs.hsm_state(p)
                        reals.append(None if r is None else r.name.lower())
                        ops.append(f"hsmstate {enc(p)} ok:{enc(sout)} ok:{enc(aout)}")
                        metas.append((p, sout, aout))
            for err in ("missing", "failed", "timeout"):
                script[:] = [{"missing": (2, "", "lfs: No such file or directory"), "failed": (1, "", "boom"), "timeout": (None, "", "")}[err]] * 2
                r = lfs.hsm_state(p)
                reals.append(None if r is None else r.name.lower())
                ops.append(f"hsmstate {enc(p)} {err} {err}")
                metas.append((p, err, err))
            # archived+released with a failing action query
            for err in ("failed", "timeout"):
                sout = p + ": (0x0d) released exists archived"
                script[:] = [(0, sout, ""), {"failed": (1, "", "x"), "timeout": (None, "", "")}[err]]
                r = lfs.hsm_state(p)
                reals.append(None if r is None else r.name.lower())
                ops.append(f"hsmstate {enc(p)} ok:{enc(sout)} {err}")
                metas.append((p, sout, err))
    finally:
        lfsmod.util.run_command = real_run
    outs = common.Driver().batch(ops)
    for (p, sout, aout), real, out in zip(metas, reals, outs):
        m = None if out == "-" else out
        ctx.case(("parse", p, sout, aout), nontrivial=True,
                 sample={"path": p, "hsm_state_output": sout, "hsm_action_output": aout, "real": real, "model": m} if "RESTORE_2024" in p and "released" in sout and len(ctx.samples) < 2 else None)
        ctx.count(f"parse:{real}")
        if real != m and len(ctx.corr_broken) < 6:
            ctx.corr_broken.append({"stream": "LFS.hsm_state-vs-hsmStateParse", "path": p, "state_out": sout, "action_out": aout, "real": real, "model": m})
        # oracle: the verdict must not depend on the path: recompute from the flags alone
        if sout.startswith(p + ": ") and not isinstance(aout, type(None)) and aout not in ("failed", "timeout", "missing"):
            flags = sout[len(p) + 2:]
            act = aout[len(p) + 2:] if aout.startswith(p + ": ") else aout
            exp = "unarchived" if "archived" not in flags else "restored" if "released" not in flags else \
                "restoring" if "RESTORE" in act else "released"
            if real != exp:
                ctx.violation("parse:" + ("keyword-in-path" if any(k in p for k in ("archived", "released", "RESTORE")) else "other"),
                              f"lfs reports flags {flags!r} / action {act!r} for {p!r}; hsm_state() says {real}, the flags mean {exp}",
                              {"kind": "parse", "path": p, "state_out": sout, "action_out": aout, "real": real, "expected": exp})


def stage_node(ctx, e, only=None, n=None):
    """_restore_wait, release_files, idle refresh, open — on a real LustreHSMNodeIO with a scripted LFS object"""
    import alpenhorn.daemon.update as upd
    import alpenhorn.io.lfs as lfsmod
    from alpenhorn.scheduler import FairMultiFIFOQueue
    rng = ctx.rng
    w = worldmod.World(e)
    db = w.db
    ops, exps, kinds = [], [], []
    n = n or (360 if ctx.quick() else 6000)
    for it in range(n):
        for m in (db.StorageTransferAction, db.ArchiveFileCopyRequest, db.ArchiveFileImportRequest, db.ArchiveFileCopy,
                  db.ArchiveFile, db.ArchiveAcq, db.StorageNode, db.StorageGroup):
            m.delete().execute()
        avail_kib = rng.choice([None, 10, 50, 95, 96, 97, 98, 99, 100, 500])
        g, node = mk_hsm_node(e, w, avail_kib=avail_kib, release_count=rng.choice([2, 5, 100]))
        acq = w.acq("acq")
        q = FairMultiFIFOQueue()
        un = upd.UpdateableNode(q, db.StorageNode.get(id=node.id))
        io = un.io
        stub = StubLfs(lfsmod.LFS)
        io._lfs = stub
        files, copies = [], []
        for _ in range(rng.randint(0, 3)):          # offset file ids from copy ids
            w.file(acq, f"dummy{_}.dat", b"d")
        for i in range(rng.randint(1, 6)):
            f = w.file(acq, f"f{i}.dat", bytes(rng.getrandbits(8) for _ in range(rng.choice([1, 10, 1024, 1024, 2048, 30000, 60000]))))
            c = db.ArchiveFileCopy.create(file=f, node=node, has_file=rng.choice("YYYYMN"), wants_file="Y", ready=rng.random() < 0.6,
                                          last_update=__import__("datetime").datetime(2020, 1, 1) + __import__("datetime").timedelta(days=rng.randint(0, 50), seconds=i))
            stub.states[str(c.path)] = rng.choice(STATES + [None])
            files.append(f); copies.append(c)
        kind = rng.choice(list(only) if only else ["rwait", "release", "refresh", "open", "readypath", "readytask", "checktask", "readytask", "checktask"])
        if kind == "readypath":
            # `ready_path` (used before hashing a not-yet-tracked file during import): ready only on a resident answer; a
            # released file is sent hsm_restore; an lfs failure is not "ready"
            c = rng.choice(copies)
            st = rng.choice(STATES + [None, None])
            stub.queue[:] = [st]
            stub.calls.clear()
            try:
                res = bool(io.ready_path(c.file.path))
            except Exception as ex:  # noqa
                ctx.violation("readypath:raised", f"ready_path raised {type(ex).__name__}: {ex} (lfs answer {st})", {"kind": "readypath", "state": st})
                continue
            ops.append(f"hsmopen {st or '-'}")
            exps.append(str(int(res)))
            kinds.append("readypath")
            if res and st not in ("restored", "unarchived"):
                ctx.violation("readypath:nonresident", f"ready_path reported the file ready for I/O although lfs answered {st!r}",
                              {"kind": "readypath", "state": st})
            if st == "released" and ("restore", str(c.path)) not in stub.calls:
                ctx.violation("readypath:no-restore", "ready_path did not request the restore of a released file", {"kind": "readypath"})
            continue
        if kind in ("readytask", "checktask"):
            # the whole task (generator with deferred re-queues) on the real queue: k waiting answers, then a final one
            import alpenhorn.io._default_asyncs as dasync
            c = rng.choice(copies)
            nwait = rng.randint(0, 3)
            answers = [(rng.choice(["restoring", "released"]), rng.choice([True, True, None])) for _ in range(nwait)]
            final = rng.choice([("restored", True), ("unarchived", True), ("missing", True), (None, True), ("released", False),
                                ("restored", None), (None, None)])
            answers.append(final)
            exists_ans = rng.choice(["restored", "released", "restoring", "unarchived", "missing", None]) if kind == "checktask" else "-"
            io._restoring, io._restore_start = set(), {}
            seq = ([exists_ans] if kind == "checktask" else []) + [a[0] for a in answers]
            rrs = [a[1] for a in answers]
            stub.queue[:] = list(seq)
            stub.states[str(c.path)] = final[0]
            stub.calls.clear()

            # restore results are consumed in order, one per hsm_restore call
            def scripted_restore(path, _rrs=rrs, _ans=answers):
                stub.calls.append(("restore", str(path)))
                k = sum(1 for (kk, _) in stub.calls if kk == "state") - (1 if kind == "checktask" else 0) - 1
                return _rrs[min(max(k, 0), len(_rrs) - 1)]
            stub.hsm_restore = scripted_restore
            hashed = []
            real_check = dasync.check_async
            dasync.check_async = lambda task, nio, cp: hashed.append(cp.id)
            w.put_bytes(node, c.file, b"x")
            before_ready = bool(c.ready)
            try:
                if kind == "readytask":
                    req = db.ArchiveFileCopyRequest.create(file=c.file, node_from=node, group_to=g)
                    io.ready_pull(req)
                else:
                    io.check(c)
                for _ in range(20):
                    item = q.get(timeout=0.001)
                    if item is None:
                        if q.deferred_size:
                            q._deferrals = [(k * 1e-9, *d[1:]) for k, d in enumerate(q._deferrals)]
                            continue
                        break
                    item[0]()
                    q.task_done(item[1])
            except Exception as ex:  # noqa
                ctx.violation("task:raised", f"the HSM {kind} raised {type(ex).__name__}: {ex} (answers {seq})", {"kind": kind, "answers": seq})
                continue
            finally:
                dasync.check_async = real_check
                del stub.hsm_restore
            after_ready = bool(db.ArchiveFileCopy.get(id=c.id).ready)
            after_has = db.ArchiveFileCopy.get(id=c.id).has_file
            if kind == "checktask" and after_has == "N" and c.has_file != "N" and exists_ans != "missing":
                ctx.violation("task:missing-verdict-for-present-file", f"the HSM check task recorded the copy missing (has_file {c.has_file} -> N) "
                              f"although lfs never reported the file missing (answer to the existence probe: {exists_ans}; the file is on disk)",
                              {"kind": kind, "exists_answer": exists_ans, "answers": seq})
            enc = ",".join(f"{a[0] or '-'}/{'-' if a[1] is None else int(a[1])}" for a in answers)
            skip = kind == "checktask" and exists_ans == "missing"
            ops.append(f"hsmtask {'ready' if kind == 'readytask' else 'check'} - - {c.file_id} {exists_ans or '-'} {enc}")
            if kind == "readytask":
                exps.append(f"{int(after_ready)} {','.join(map(str, sorted(io._restoring))) or '-'} {','.join(map(str, sorted(io._restore_start))) or '-'}")
            else:
                exps.append(f"{int(bool(hashed))} {','.join(map(str, sorted(io._restoring))) or '-'} {','.join(map(str, sorted(io._restore_start))) or '-'}")
            kinds.append(kind)
            resident_end = final[0] in ("restored", "unarchived")
            # a waiting answer "released" with a refused restore ends the wait early
            early = next((i for i, a in enumerate(answers[:-1]) if a[0] == "released" and a[1] is False), None)
            if kind == "readytask" and after_ready and not (resident_end and early is None):
                ctx.violation("task:offered-nonresident", f"ready_pull left the copy ready=True (offered as a transfer source) although the "
                              f"last lfs answers were {seq[-2:]} (restore results {rrs[-2:]})", {"kind": kind, "op": ops[-1]})
            if kind == "checktask" and hashed and (not resident_end or skip):
                ctx.violation("task:hashed-nonresident", f"the check task hashed the file although lfs answered {seq}", {"kind": kind, "op": ops[-1]})
            if io._restoring or io._restore_start:
                ctx.violation("task:leftover", f"restore bookkeeping not empty after the {kind} ended: {sorted(io._restoring)}/{sorted(io._restore_start)} "
                              f"(answers {seq})", {"kind": kind, "op": ops[-1]})
            continue
        if kind == "rwait":
            # a sequence of _restore_wait calls on one copy with scripted answers
            c = rng.choice(copies)
            io._restoring = set(rng.sample([f.id for f in files], k=rng.randint(0, len(files))))
            io._restore_start = {fid: 1.0 for fid in io._restoring}
            for step in range(rng.randint(1, 4)):
                st = rng.choice(STATES + [None])
                rr = rng.choice([True, True, False, None])
                stub.queue[:] = [st]
                stub.restore_result = rr
                b_r, b_s = sorted(io._restoring), sorted(io._restore_start)
                try:
                    res = io._restore_wait(c)
                except Exception as ex:  # noqa
                    ctx.violation("rwait:raised", f"_restore_wait raised {type(ex).__name__}: {ex} (state {st}, restore result {rr}, "
                                  f"bookkeeping {b_r}/{b_s}, file {c.file_id}, copy {c.id})",
                                  {"kind": "rwait", "state": st, "restore_result": rr, "restoring": b_r, "started": b_s, "file": c.file_id, "copy": c.id})
                    break
                ops.append(f"rwait {','.join(map(str, b_r)) or '-'} {','.join(map(str, b_s)) or '-'} {c.file_id} {st or '-'} "
                           f"{'-' if rr is None else int(rr)}")
                exps.append(f"{ {True: 'wait', False: 'ready', None: 'error'}[res] } "
                            f"{','.join(map(str, sorted(io._restoring))) or '-'} {','.join(map(str, sorted(io._restore_start))) or '-'}")
                kinds.append("rwait")
                # oracle: bookkeeping cleared on every outcome that ends the wait; released files are sent hsm_restore
                if res is not True and (c.file_id in io._restoring or c.file_id in io._restore_start):
                    ctx.violation("rwait:leftover", f"_restore_wait returned {res} but file {c.file_id} is still in the restore bookkeeping",
                                  {"kind": "rwait", "op": ops[-1]})
                if st == "released" and ("restore", str(c.path)) not in stub.calls[-2:]:
                    ctx.violation("rwait:no-restore", "released file was not sent hsm_restore", {"kind": "rwait", "op": ops[-1]})
                if res is False and st not in ("restored", "unarchived"):
                    ctx.violation("rwait:ready-nonresident", f"_restore_wait said ready in state {st}", {"kind": "rwait", "op": ops[-1]})
        elif kind == "release":
            rows = list(db.ArchiveFileCopy.select().where(db.ArchiveFileCopy.node == node, db.ArchiveFileCopy.has_file == "Y",
                                                          db.ArchiveFileCopy.ready == True).order_by(db.ArchiveFileCopy.last_update))  # noqa: E712
            if len(rows) >= 2 and rng.random() < 0.5:
                # boundary: the shortfall equals the cumulative size of the first k releasable copies exactly
                for c in rows:
                    db.ArchiveFile.update(size_b=1024 * rng.randint(1, 3)).where(db.ArchiveFile.id == c.file_id).execute()
                    if rng.random() < 0.8:
                        stub.states[str(c.path)] = "restored"
                rows = list(db.ArchiveFileCopy.select().where(db.ArchiveFileCopy.node == node, db.ArchiveFileCopy.has_file == "Y",
                                                              db.ArchiveFileCopy.ready == True).order_by(db.ArchiveFileCopy.last_update))  # noqa: E712
                restored = [c for c in rows if stub.states.get(str(c.path)) == "restored"]
                if len(restored) >= 2:
                    k_ = rng.randint(1, len(restored) - 1)
                    target = sum(c.file.size_b for c in restored[:k_])
                    avail_kib = 100 - target // 1024
                    db.StorageNode.update(avail_gb=avail_kib / 2 ** 20).where(db.StorageNode.id == node.id).execute()
                    ctx.count("node:release-exact-fit")
            stub.calls.clear()
            io.set_storage(db.StorageNode.get(id=node.id)) if hasattr(io, "set_storage") else None
            io.release_files()
            item = q.get(timeout=0.001)
            if item is not None:
                item[0](); q.task_done(item[1])
            released = [p for (k, p) in stub.calls if k == "release"]
            rel_ids = [c.id for p in released for c in rows if str(c.path) == p]
            cs = ",".join(f"{c.id}:{c.file.size_b}:{stub.states.get(str(c.path)) or '-'}" for c in rows) or "-"
            ops.append(f"hsmrelease {100 * 1024} {'-' if avail_kib is None else avail_kib * 1024} {cs}")
            exps.append(",".join(map(str, rel_ids)) or "-")
            kinds.append("release")
            after = {c.id: c.ready for c in db.ArchiveFileCopy.select()}
            for c in rows:
                if c.id in rel_ids and after[c.id]:
                    ctx.violation("release:flag", "released copy still marked ready", {"kind": "release", "op": ops[-1]})
            for cid in rel_ids:
                c = [x for x in rows if x.id == cid][0]
                if stub.states.get(str(c.path)) != "restored":
                    ctx.violation("release:nonrestored", f"released a copy in state {stub.states.get(str(c.path))}", {"kind": "release", "op": ops[-1]})
            need = 100 * 1024 - (avail_kib or 0) * 1024
            tot = sum([x for x in rows if x.id == cid][0].file.size_b for cid in rel_ids[:-1])
            if rel_ids and (avail_kib is None or tot >= need):
                ctx.violation("release:toomany", f"released more than needed: {tot} bytes already released before the last one, need {need}",
                              {"kind": "release", "op": ops[-1]})
        elif kind == "refresh":
            un._io_happened = False
            stub.calls.clear()
            io.idle_update(False)
            item = q.get(timeout=0.001)
            before = {c.id: (c.has_file, c.ready) for c in db.ArchiveFileCopy.select()}
            while item is not None:
                item[0](); q.task_done(item[1]); item = q.get(timeout=0.001)
            after = {c.id: (c.has_file, c.ready) for c in db.ArchiveFileCopy.select()}
            asked = set(p for (k, p) in stub.calls if k == "state")
            for c in copies:
                if before[c.id][0] != "Y" or str(c.path) not in asked:
                    continue
                st = stub.states.get(str(c.path))
                ops.append(f"hsmrefresh {int(before[c.id][1])} {st or '-'}")
                a = after[c.id]
                exps.append("unchanged" if a == before[c.id] else f"{a[0]}:{int(a[1])}")
                kinds.append("refresh")
                if st is not None and st != "missing" and a[1] != (st in ("restored", "unarchived")):
                    ctx.violation("refresh:flag", f"after the state check the ready flag is {a[1]} for a file reported {st}", {"kind": "refresh", "op": ops[-1]})
        else:
            c = rng.choice(copies)
            st = stub.states.get(str(c.path))
            w.put_bytes(node, c.file, b"x")
            try:
                fh = io.open(c.file.path)
                fh.close()
                okr = True
            except OSError:
                okr = False
            ops.append(f"hsmopen {st or '-'}")
            exps.append(str(int(okr)))
            kinds.append("open")
            if okr and st not in ("restored", "unarchived"):
                ctx.violation("open:nonresident", f"open() succeeded for a file in state {st}", {"kind": "open"})
    outs = common.Driver().batch(ops)
    for op, x, o, k in zip(ops, exps, outs, kinds):
        ctx.count("node:" + k)
        ctx.case(op, nontrivial=True, sample={"op": op, "real": x, "model": o} if k == "release" and x != "-" and len(ctx.samples) < 5 else None)
        if x != o and len(ctx.corr_broken) < 6:
            ctx.corr_broken.append({"stream": f"LustreHSMNodeIO.{k}-vs-model", "op": op, "real": x, "model": o})


def run(ctx):
    ok = common.proof_stage(ctx, MODULE)
    stage_parsers(ctx)
    with envmod.Env() as e:
        stage_node(ctx, e)
    ctx.coverage["rule"] = ("parsers: 7 paths (plain, containing 'archived', 'released', 'RESTORE', ':' and spaces) x sub-lists of lfs's flag "
                            "vocabulary x hsm_action outputs x error kinds through the real LFS.hsm_state/hsm_restoring with run_command "
                            "scripted; node: random copy tables on a real LustreHSMNodeIO whose LFS object is scripted: sequences of "
                            "_restore_wait answers, release_files tasks, idle state-check tasks, open(); each compared with the Lean model "
                            "and judged by oracles (path-independent verdict, bookkeeping cleared, only restored copies released and no "
                            "more than needed, ready flag = reported residency, open only when resident). distinct = op line")
    from props.c06 import finish_search
    finish_search(ctx, ok)


def replay(ctx, path):
    import sys
    return common.replay_by_rerun(ctx, path, sys.modules[__name__])
