"""C02 — transfers: real update_pull / pre-pull search / pull_async with scripted transports and DB faults vs the Lean World model."""
import json

import common
import env as envmod
import wharness
import world as worldmod
from props import c01

MODULE = "Alpen.Props.C02"
WEIGHTS = {"transfer": 7, "pull": 1, "search": 1, "decide": 1, "check": 1, "op": 3, "fault": 0.8, "delete": 0.7}


def judge_pull(d, copies_before, req_before):
    """oracle from the property text for one real pull step"""
    probs = []
    if d.get("raised"):
        probs.append(f"the pull task raised {d['raised']} (an uncaught exception in a task aborts the daemon)")
    newly_completed = d["completed"] and not req_before[0]
    dest_state_before = copies_before.get((d["file"], d["dest"]), "N")
    if newly_completed:
        if d["dst_after"] is None or d["dst_after"] != d["src"]:
            probs.append("request completed but the destination bytes differ from the source's")
        if d["route"] in ("bbcp-only", "both") or d["transfer"] == "digestMismatch":
            pass
    already = dest_state_before == "Y"
    if not d["completed"] and not already and d["transfer"] != "noRoute":
        if d["dst_after"] is not None:
            probs.append(f"transfer failed ({d['transfer']}) but a file remains at the destination path")
    if d["leftovers"]:
        probs.append(f"leftover temporary/placeholder files after the pull: {d['leftovers']}")
    if d["reserved_after"] != 0:
        probs.append(f"{d['reserved_after']} bytes still reserved after the pull task ended")
    return probs


def run(ctx):
    ok = common.proof_stage(ctx, MODULE)
    drv = common.Driver()
    rng = ctx.rng
    n = 200 if ctx.quick() else 5000
    # the history runner of C01 with pull-heavy weights; per-pull oracles need the state before each step, so wrap step_pull
    orig = wharness.Case.step_pull

    def wrapped(self, req_row, dest, want=None):
        db = self.w.db
        cb = {(c.file_id, c.node_id): c.has_file for c in db.ArchiveFileCopy.select()}
        rb = (bool(req_row.completed), bool(req_row.cancelled))
        fresh = db.ArchiveFileCopyRequest.get(id=req_row.id)
        rb = (bool(fresh.completed), bool(fresh.cancelled))
        line, d = orig(self, req_row, dest, want)
        d["problems"] = judge_pull(d, cb, rb)
        # healthy destination copy recorded <=> request completed by this step
        after = {(c.file_id, c.node_id): c.has_file for c in db.ArchiveFileCopy.select()}
        became_y = after.get((d["file"], d["dest"])) == "Y" and cb.get((d["file"], d["dest"])) != "Y"
        if not rb[0] and not rb[1] and became_y != d["completed"]:
            d["problems"].append("healthy destination copy recorded without completing the request (or vice versa)")
        src_state = after.get((d["file"], d["src_node"]))
        src_before = cb.get((d["file"], d["src_node"]))
        if d["transfer"] in ("failedCheckSrc", "digestMismatch") and cb.get((d["file"], d["dest"])) != "Y":
            if src_before is not None and src_state != "M":
                d["problems"].append(f"transfer failed in a way that may be the source's fault ({d['transfer']}) but the source copy is {src_state}")
        if d["transfer"] in ("failedNoCheck", "noRoute", "ok") and src_state != src_before:
            d["problems"].append(f"source copy state changed {src_before}->{src_state} although the source cannot be at fault ({d['transfer']})")
        return line, d
    wharness.Case.step_pull = wrapped
    try:
        results = c01.run_histories(ctx, WEIGHTS, n, 10, "daemon-steps-vs-World(C02)", space_pressure=False)
    finally:
        wharness.Case.step_pull = orig
    for h in results:
        for s in h["steps"]:
            for p in s.get("problems", []):
                ctx.violation("pull:" + p[:45].replace(" ", "_"), p + f" [transfer={s['transfer']} route={s['route']} mode={s['mode']}]",
                              {"kind": "history", "ops": [l for l in h["lines"] if l.startswith("w.")], "step": {k: v for k, v in s.items() if k not in ("src", "dst_before", "dst_after")}})
        for (cls, msg, d) in h["problems"]:
            if cls in ("healthy-touched", "overwrite"):
                ctx.violation(cls, msg, {"kind": "history", "ops": [l for l in h["lines"] if l.startswith("w.")]})
    # all-or-nothing under DB faults at every statement of the pull task (shared machinery with C10)
    scen = [("pull", 0, "none", "ok"), ("pull", 1, "rsync-only", "ok"), ("pull", 1, "rsync-only", "partial"), ("search", 0, "none", "ok")]
    with envmod.Env() as e:
        for kind, variant, route, mode in scen:
            ref = None
            for res in wharness.fault_sweep(e, kind, variant=variant, pathdir=route, mode=mode):
                if res["k"] < 0:
                    ref = res
                    continue
                ctx.case(("fault", kind, variant, route, mode, res["k"]), nontrivial=True)
                ctx.count("fault-sweep:" + kind)
                for p in wharness.judge_fault(res, ref):
                    if "half-applied" in p or "completed" in p or "bytes" in p:
                        ctx.violation("txn:" + p[:30], f"{kind} with a DB error at statement {res['k']}: {p}",
                                      {"kind": "fault", "task": kind, "variant": variant, "route": route, "k": res["k"], "after": res["after"]})
    ctx.coverage["rule"] = ("random two-host worlds and histories dominated by update_pull decisions, pre-pull searches and pull tasks; every "
                            "pull is driven through one of the feasible routes (hard link, fake rsync ok/fail-src/partial/mkstemp/write, "
                            "fake bbcp ok/bad digest/garbled, internal copy, no tool, no route; local and remote sources) onto destinations "
                            "that are absent / unregistered file / recorded N,X,M,Y; index+storage compared with the Lean model after each "
                            "step; oracles on completion, clean failure, leftovers, overwrite, source flagging, reservation; plus a DB "
                            "fault at every statement of the pull task. distinct = op sequence")
    from props.c06 import finish_search
    finish_search(ctx, ok)


def replay(ctx, path):
    print(json.dumps(json.load(open(path)), indent=1, default=str)[:4000])
    return 1
