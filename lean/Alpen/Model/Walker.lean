/-
  Model of `alpenhorn.daemon.querywalker.QueryWalker.get` and of the age filter of
  `UpdateableNode.run_auto_verify`.  Core Lean only.

  A table is the list of ids matching the walker's query **in ascending order without
  repetition** (SQL `ORDER BY id` over a primary key).
-/
namespace Alpen

inductive WalkRes where
  | valueError                      -- n < 1
  | doesNotExist                    -- nothing matched (table empty)
  | ok (items : List Nat) (cursor : Nat)
  deriving DecidableEq, Repr

/-- the `while n > 0` loop: keep taking the first `n` rows of the table until `n` rows are
    collected (`fuel` bounds the number of rounds; `n` rounds always suffice because every
    round adds at least one row). -/
def wrapFill (table : List Nat) : Nat → Nat → List Nat
  | 0, _ => []
  | fuel + 1, n =>
    if n = 0 then [] else
    let more := table.take n
    if more = [] then [] else more ++ wrapFill table fuel (n - more.length)

/-- `QueryWalker.get(k)` with current cursor `_id = cursor`. -/
def walkerGet (table : List Nat) (cursor k : Nat) : WalkRes :=
  if k < 1 then .valueError else
  let first := (table.filter (fun i => cursor ≤ i)).take k
  let n := k - first.length
  if n > 0 ∧ table = [] then .doesNotExist else
  let items := first ++ wrapFill table n n
  .ok items (items.getLast?.getD 0 + 1)

/-- a run of successive `get(k)` calls against a changing table: `tables i` is the table
    seen by call `i`.  Returns the list of id-lists returned so far (oldest first) and the
    cursor; `none` if some call raised. -/
def walkerRun (tables : Nat → List Nat) (c0 k : Nat) : Nat → Option (List (List Nat) × Nat)
  | 0 => some ([], c0)
  | m + 1 =>
    match walkerRun tables c0 k m with
    | none => none
    | some (rets, c) =>
      match walkerGet (tables m) c k with
      | .ok items c' => some (rets ++ [items], c')
      | _ => none

/-- `run_auto_verify`'s filter, in integer seconds: re-verify iff
    `(now - last_update)/86400 > min_days`, i.e. `now - last_update > 86400·min_days`. -/
def tooNew (now lastUpdate minDays : Int) : Bool := decide (now - lastUpdate ≤ 86400 * minDays)

/-- ids that `run_auto_verify` flips to 'M' out of a returned batch -/
def autoVerifySelect (now minDays : Int) (batch : List (Nat × Int)) : List Nat :=
  (batch.filter (fun p => !tooNew now p.2 minDays)).map (·.1)

end Alpen
