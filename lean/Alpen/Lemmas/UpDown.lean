import Alpen.Model.UpDown
/-! Invariant of the directory-tree lock model and its preservation lemmas (used by Props/C13). -/
namespace Alpen

/-- the invariant of the lock -/
structure UDInv (s : UD) : Prop where
  ups_len : 0 ≤ s.count → s.downs = [] ∧ (s.ups.length : Int) = s.count
  downs_len : s.count ≤ 0 → s.ups = [] ∧ (s.downs.length : Int) = -s.count
  owners_eq : ∀ t, s.owners t = s.ups.count t + s.downs.count t
  parked_free : ∀ t p, s.parked t = some p → s.owners t = 0
  /-- **no lost wake-up**: a parked thread that has not been notified is genuinely blocked -/
  nlw : ∀ t p, s.parked t = some p → p.notified = false → Blocks s.count p.isDown

theorem blocks_iff_not_ok (c : Int) (d : Bool) : Blocks c d ↔ okToLock c d = false := by
  cases d <;> simp [Blocks, okToLock]

theorem UDInv.init : UDInv UD.init := by
  refine ⟨?_, ?_, ?_, ?_, ?_⟩ <;> simp [UD.init]

theorem UDInv.unpark {s : UD} (h : UDInv s) (t : Nat) :
    UDInv { s with parked := upd s.parked t none } := by
  refine ⟨h.ups_len, h.downs_len, h.owners_eq, ?_, ?_⟩
  · intro i p hp
    by_cases hi : i = t
    · simp [upd, hi] at hp
    · simp [upd, hi] at hp; exact h.parked_free i p hp
  · intro i p hp hn
    by_cases hi : i = t
    · simp [upd, hi] at hp
    · simp [upd, hi] at hp; exact h.nlw i p hp hn

theorem UDInv.park {s : UD} (h : UDInv s) (t : Nat) (isDown : Bool) (dl : Option Nat)
    (ho : s.owners t = 0) (hb : Blocks s.count isDown) :
    UDInv { s with parked := upd s.parked t (some ⟨isDown, dl, false⟩) } := by
  refine ⟨h.ups_len, h.downs_len, h.owners_eq, ?_, ?_⟩
  · intro i p hp
    by_cases hi : i = t
    · subst hi; exact ho
    · simp [upd, hi] at hp; exact h.parked_free i p hp
  · intro i p hp hn
    by_cases hi : i = t
    · simp [upd, hi] at hp; subst hp; exact hb
    · simp [upd, hi] at hp; exact h.nlw i p hp hn

theorem UDInv.grant {s : UD} (h : UDInv s) (t : Nat) (isDown : Bool)
    (ok : okToLock s.count isDown = true) : UDInv (grant s t isDown) := by
  cases isDown
  · have hc : 0 ≤ s.count := by simpa [okToLock] using ok
    obtain ⟨hd, hl⟩ := h.ups_len hc
    refine ⟨?_, ?_, ?_, ?_, ?_⟩
    · intro _; simp [Alpen.grant, hd]; omega
    · intro h0; simp [Alpen.grant] at h0; omega
    · intro i
      by_cases hi : i = t
      · subst hi; simp [Alpen.grant, upd, h.owners_eq i]; omega
      · have hi' : ¬ t = i := fun e => hi e.symm
        simp [Alpen.grant, upd, hi, hi', h.owners_eq i]
    · intro i p hp
      by_cases hi : i = t
      · simp [Alpen.grant, upd, hi] at hp
      · simp [Alpen.grant, upd, hi] at hp ⊢; exact h.parked_free i p hp
    · intro i p hp hn
      by_cases hi : i = t
      · simp [Alpen.grant, upd, hi] at hp
      · simp [Alpen.grant, upd, hi] at hp
        have hb := h.nlw i p hp hn
        revert hb
        cases p.isDown <;> simp [Alpen.grant, Blocks] <;> omega
  · have hc : s.count ≤ 0 := by simpa [okToLock] using ok
    obtain ⟨hu, hl⟩ := h.downs_len hc
    refine ⟨?_, ?_, ?_, ?_, ?_⟩
    · intro h0; simp [Alpen.grant] at h0; omega
    · intro _; simp [Alpen.grant, hu]; omega
    · intro i
      by_cases hi : i = t
      · subst hi; simp [Alpen.grant, upd, h.owners_eq i]; omega
      · have hi' : ¬ t = i := fun e => hi e.symm
        simp [Alpen.grant, upd, hi, hi', h.owners_eq i]
    · intro i p hp
      by_cases hi : i = t
      · simp [Alpen.grant, upd, hi] at hp
      · simp [Alpen.grant, upd, hi] at hp ⊢; exact h.parked_free i p hp
    · intro i p hp hn
      by_cases hi : i = t
      · simp [Alpen.grant, upd, hi] at hp
      · simp [Alpen.grant, upd, hi] at hp
        have hb := h.nlw i p hp hn
        revert hb
        cases p.isDown <;> simp [Alpen.grant, Blocks] <;> omega

theorem UDInv.attempt {s : UD} (h : UDInv s) (t : Nat) (isDown blocking : Bool)
    (deadline : Option Nat) (fresh : Bool) :
    UDInv (attempt s t isDown blocking deadline fresh).1 := by
  unfold Alpen.attempt
  split
  · rename_i ok; exact h.grant t isDown ok
  · rename_i nok
    have hb : Blocks s.count isDown := (blocks_iff_not_ok _ _).2 (by simpa using nok)
    split
    · exact h.unpark t
    · rename_i ho
      have ho : s.owners t = 0 := by omega
      split
      · exact h.unpark t
      · split
        · split
          · exact h.unpark t
          · exact h.park t isDown _ ho hb
        · exact h.park t isDown _ ho hb

/-- every parked thread is marked notified -/
def notifyAll (f : Nat → Option Park) : Nat → Option Park :=
  fun i => (f i).map (fun p => { p with notified := true })

theorem UDInv.rel_down {s : UD} (h : UDInv s) (t : Nat) (hpt : s.parked t = none)
    (hc : s.count < 0) (ho : s.owners t > 0) :
    (s.count + 1 ≠ 0 →
      UDInv { s with count := s.count + 1, owners := upd s.owners t (s.owners t - 1),
                     downs := s.downs.erase t }) ∧
    UDInv { s with count := s.count + 1, owners := upd s.owners t (s.owners t - 1),
                   downs := s.downs.erase t,
                   parked := fun i => (s.parked i).map (fun p => { p with notified := true }) } := by
  obtain ⟨hu, hl⟩ := h.downs_len (by omega)
  have hmem : t ∈ s.downs := by
    have := h.owners_eq t
    rw [hu] at this
    simp at this
    exact List.count_pos_iff.1 (by omega)
  have hlen : (s.downs.erase t).length = s.downs.length - 1 := List.length_erase_of_mem hmem
  have hpos : 0 < s.downs.length := List.length_pos_of_mem hmem
  have own : ∀ i, upd s.owners t (s.owners t - 1) i = s.ups.count i + (s.downs.erase t).count i := by
    intro i
    by_cases hi : i = t
    · subst hi; simp [upd, h.owners_eq i, List.count_erase_self]; rw [hu]; simp
    · simp [upd, hi, h.owners_eq i, List.count_erase_of_ne hi]
  have pf : ∀ i p, s.parked i = some p → upd s.owners t (s.owners t - 1) i = 0 := by
    intro i p hp
    by_cases hi : i = t
    · subst hi; simp [hpt] at hp
    · simp [upd, hi]; exact h.parked_free i p hp
  constructor
  · intro hne
    refine ⟨?_, ?_, own, pf, ?_⟩
    · intro h0
      have h0 : 0 ≤ s.count + 1 := h0
      refine ⟨List.eq_nil_of_length_eq_zero (show (s.downs.erase t).length = 0 by omega), ?_⟩
      show (s.ups.length : Int) = s.count + 1
      rw [hu]; simp; omega
    · intro _
      refine ⟨hu, ?_⟩
      show ((s.downs.erase t).length : Int) = -(s.count + 1)
      omega
    · intro i p hp hn
      have hb := h.nlw i p hp hn
      revert hb
      cases p.isDown <;> simp [Blocks] <;> omega
  · refine ⟨?_, ?_, own, ?_, ?_⟩
    · intro h0
      have h0 : 0 ≤ s.count + 1 := h0
      refine ⟨List.eq_nil_of_length_eq_zero (show (s.downs.erase t).length = 0 by omega), ?_⟩
      show (s.ups.length : Int) = s.count + 1
      rw [hu]; simp; omega
    · intro _
      refine ⟨hu, ?_⟩
      show ((s.downs.erase t).length : Int) = -(s.count + 1)
      omega
    · intro i p hp
      simp at hp
      obtain ⟨q, hq, _⟩ := hp
      exact pf i q hq
    · intro i p hp hn
      simp at hp
      obtain ⟨q, hq, rfl⟩ := hp
      simp at hn

theorem UDInv.rel_up {s : UD} (h : UDInv s) (t : Nat) (hpt : s.parked t = none)
    (hc : s.count > 0) (ho : s.owners t > 0) :
    (s.count - 1 ≠ 0 →
      UDInv { s with count := s.count - 1, owners := upd s.owners t (s.owners t - 1),
                     ups := s.ups.erase t }) ∧
    UDInv { s with count := s.count - 1, owners := upd s.owners t (s.owners t - 1),
                   ups := s.ups.erase t,
                   parked := fun i => (s.parked i).map (fun p => { p with notified := true }) } := by
  obtain ⟨hd, hl⟩ := h.ups_len (by omega)
  have hmem : t ∈ s.ups := by
    have := h.owners_eq t
    rw [hd] at this
    simp at this
    exact List.count_pos_iff.1 (by omega)
  have hlen : (s.ups.erase t).length = s.ups.length - 1 := List.length_erase_of_mem hmem
  have hpos : 0 < s.ups.length := List.length_pos_of_mem hmem
  have own : ∀ i, upd s.owners t (s.owners t - 1) i = (s.ups.erase t).count i + s.downs.count i := by
    intro i
    by_cases hi : i = t
    · subst hi; simp [upd, h.owners_eq i, List.count_erase_self]; rw [hd]; simp
    · simp [upd, hi, h.owners_eq i, List.count_erase_of_ne hi]
  have pf : ∀ i p, s.parked i = some p → upd s.owners t (s.owners t - 1) i = 0 := by
    intro i p hp
    by_cases hi : i = t
    · subst hi; simp [hpt] at hp
    · simp [upd, hi]; exact h.parked_free i p hp
  constructor
  · intro hne
    refine ⟨?_, ?_, own, pf, ?_⟩
    · intro _
      refine ⟨hd, ?_⟩
      show ((s.ups.erase t).length : Int) = s.count - 1
      omega
    · intro h0
      have h0 : s.count - 1 ≤ 0 := h0
      refine ⟨List.eq_nil_of_length_eq_zero (show (s.ups.erase t).length = 0 by omega), ?_⟩
      show (s.downs.length : Int) = -(s.count - 1)
      rw [hd]; simp; omega
    · intro i p hp hn
      have hb := h.nlw i p hp hn
      revert hb
      cases p.isDown <;> simp [Blocks] <;> omega
  · refine ⟨?_, ?_, own, ?_, ?_⟩
    · intro _
      refine ⟨hd, ?_⟩
      show ((s.ups.erase t).length : Int) = s.count - 1
      omega
    · intro h0
      have h0 : s.count - 1 ≤ 0 := h0
      refine ⟨List.eq_nil_of_length_eq_zero (show (s.ups.erase t).length = 0 by omega), ?_⟩
      show (s.downs.length : Int) = -(s.count - 1)
      rw [hd]; simp; omega
    · intro i p hp
      simp at hp
      obtain ⟨q, hq, _⟩ := hp
      exact pf i q hq
    · intro i p hp hn
      simp at hp
      obtain ⟨q, hq, rfl⟩ := hp
      simp at hn

theorem UDInv.step_acq {s : UD} (h : UDInv s) (t : Nat) (isDown blocking : Bool)
    (timeout : Option Nat) : UDInv (ustep s (.acq t isDown blocking timeout)).1 := by
  simp only [ustep]
  split
  · exact h
  · exact h.attempt _ _ _ _ _

theorem UDInv.step_wake {s : UD} (h : UDInv s) (t : Nat) : UDInv (ustep s (.wake t)).1 := by
  simp only [ustep]
  split
  · exact h
  · exact h.attempt _ _ _ _ _

theorem UDInv.step_tick {s : UD} (h : UDInv s) (dt : Nat) : UDInv (ustep s (.tick dt)).1 :=
  ⟨h.ups_len, h.downs_len, h.owners_eq, h.parked_free, h.nlw⟩

theorem UDInv.step_rel {s : UD} (h : UDInv s) (t : Nat) (isDown : Bool) :
    UDInv (ustep s (.rel t isDown)).1 := by
  simp only [ustep]
  split
  · exact h
  · rename_i hpt
    cases isDown
    · by_cases hc : s.count > 0
      · by_cases ho : s.owners t > 0
        · have := h.rel_up t hpt hc ho
          by_cases hz : s.count - 1 = 0
          · simpa [hc, ho, hz] using this.2
          · simpa [hc, ho, hz] using this.1 hz
        · simpa [hc, ho] using h
      · simpa [hc] using h
    · by_cases hc : s.count < 0
      · by_cases ho : s.owners t > 0
        · have := h.rel_down t hpt hc ho
          by_cases hz : s.count + 1 = 0
          · simpa [hc, ho, hz] using this.2
          · simpa [hc, ho, hz] using this.1 hz
        · simpa [hc, ho] using h
      · simpa [hc] using h

theorem UDInv.step {s : UD} (h : UDInv s) (op : UOp) : UDInv (ustep s op).1 := by
  cases op with
  | acq t d b to => exact h.step_acq t d b to
  | wake t => exact h.step_wake t
  | rel t d => exact h.step_rel t d
  | tick dt => exact h.step_tick dt

theorem UDInv.run {s : UD} (h : UDInv s) (ops : List UOp) : UDInv (urun s ops) := by
  induction ops generalizing s with
  | nil => exact h
  | cons op ops ih => exact ih (h.step op)

end Alpen
