import Alpen.Model.Import
import Alpen.Lemmas.Import
import Alpen.Model.FileWalk
import Alpen.Lemmas.FileWalk
/-!
# C04 — import registers exactly what is on disk, once

"Importing a path on a node registers exactly what is on disk: the acquisition named by the
import-detect extension, the file name relative to it, the byte length and MD5 of the content,
and one present copy on that node; with registration disabled only already-registered files
gain a copy and no acquisition or file record is created. Dot-files, symlinks, non-regular
files, locked files (which stay pending), the node marker file, paths outside the node root,
and names the detector rejects or that are not canonical relative paths are never imported.
Repeated or concurrent imports of the same path leave exactly one acquisition, file and copy
record and never abort the daemon."

`ImpIn` is everything one import looks at (path class, file kind, lock, detector verdict,
registration flag, the three index rows); uniqueness of rows is the database's unique indexes.
-/
namespace Alpen

/-- **C04.1** an import registers something iff every condition of the property holds -/
theorem C04_accepts_iff (i : ImpIn) :
    (importStep i).result = .success ↔
      (i.isRoot = false ∧ i.underRoot = true ∧ i.isMarker = false ∧ i.regular = true ∧ i.dotName = false ∧
       i.locked = false ∧ i.detect = .ok ∧ tracked i.copy = false ∧
       (i.register = true ∨ (i.acqExists = true ∧ i.fileExists = true))) := by
  obtain ⟨a, b, c, d, e, f, g, r, ae, fe, cp⟩ := i
  cases g <;> cases a <;> cases b <;> cases c <;> cases d <;> cases e <;> cases f <;>
    simp [importStep, ImpOut.unchanged] <;> (split <;> simp_all <;> grind)

/-- **C04.2** what a successful import writes: the acquisition and the file exactly when they
    were missing (never without `register`), one copy row for (file, node) that is healthy —
    or suspect iff a row recorded absent-but-wanted existed — the request completed, post-add run -/
theorem C04_registers_exactly (i : ImpIn) (h : (importStep i).result = .success) :
    (importStep i).newAcq = !i.acqExists ∧ (importStep i).newFile = !i.fileExists ∧
    (importStep i).copy = some (importedCopy i.copy) ∧
    (importStep i).requestCompleted = true ∧ (importStep i).postAdd = true ∧
    (i.register = false → (importStep i).newAcq = false ∧ (importStep i).newFile = false) ∧
    (∃ hs, (importStep i).copy = some (hs, .Y) ∧ (hs = .Y ∨ hs = .M) ∧
        (hs = .M ↔ ∃ h0, i.copy = some (h0, .Y))) := by
  obtain ⟨e, hr, _⟩ := importStep_success i h
  rw [e]
  refine ⟨rfl, rfl, rfl, rfl, rfl, ?_, ?_⟩
  · intro h; simp [hr h]
  · obtain ⟨hs, h1, h2, h3⟩ := importedCopy_M_iff i.copy
    exact ⟨hs, by simp [h1], h2, h3⟩

/-- **C04.2'** every rejection leaves the index alone; the request is completed except when the
    file is locked (it stays pending) -/
theorem C04_rejection_changes_nothing (i : ImpIn) (h : (importStep i).result ≠ .success) :
    (importStep i).newAcq = false ∧ (importStep i).newFile = false ∧ (importStep i).copy = i.copy ∧
    (importStep i).postAdd = false ∧
    ((importStep i).requestCompleted = false ↔ (importStep i).result = .lockedPending) := by
  obtain ⟨e, hr⟩ := importStep_reject i h
  refine ⟨?_, ?_, ?_, ?_, hr⟩ <;> (rw [e]; rfl)

/-- **C04 (never imported)** -/
theorem C04_never_imported (i : ImpIn)
    (h : i.dotName = true ∨ i.regular = false ∨ i.locked = true ∨ i.isMarker = true ∨ i.underRoot = false ∨
         i.isRoot = true ∨ i.detect ≠ .ok) :
    (importStep i).result ≠ .success := by
  intro hs
  have := (C04_accepts_iff i).1 hs
  grind

/-- a locked file stays pending exactly when it would otherwise have been considered -/
theorem C04_locked_pending (i : ImpIn) :
    (importStep i).result = .lockedPending ↔
      (i.isRoot = false ∧ i.underRoot = true ∧ i.isMarker = false ∧ i.regular = true ∧ i.dotName = false ∧ i.locked = true) := by
  obtain ⟨a, b, c, d, e, f, g, r, ae, fe, cp⟩ := i
  cases g <;> cases a <;> cases b <;> cases c <;> cases d <;> cases e <;> cases f <;>
    simp [importStep, ImpOut.unchanged] <;>
    (split <;> simp_all <;> (cases r <;> cases ae <;> cases fe <;> simp_all))

/-- **C04.3 (repeated imports)** importing the same path again changes nothing more -/
theorem C04_idempotent (i : ImpIn) :
    let o := importStep i
    let o2 := importStep (i.after o)
    o2.newAcq = false ∧ o2.newFile = false ∧ o2.copy = o.copy ∧
    (o.result = .success → o2.result = .duplicate) := by
  intro o o2
  have ho : o = importStep i := rfl
  have ho2 : o2 = importStep (i.after o) := rfl
  clear_value o2 o
  by_cases hs : o.result = .success
  · rw [ho] at hs
    obtain ⟨e, _, _⟩ := importStep_success i hs
    obtain ⟨h1, h2, h3, h4, h5, h6, h7, _, _⟩ := (C04_accepts_iff i).1 hs
    rw [e] at ho
    subst ho
    simp [importStep, ImpIn.after, h1, h2, h3, h4, h5, h6, h7, tracked_importedCopy, ImpOut.unchanged] at ho2
    subst ho2
    exact ⟨rfl, rfl, rfl, fun _ => rfl⟩
  · rw [ho] at hs
    obtain ⟨e, _⟩ := importStep_reject i hs
    have hi : i.after o = i := by
      rw [ho, e]; simp [ImpIn.after, ImpOut.unchanged]
    rw [hi] at ho2
    subst ho ho2
    have := C04_rejection_changes_nothing i hs
    exact ⟨this.1, this.2.1, rfl, fun h => absurd h hs⟩

/-- **C04.4 (concurrent imports, safety)** under every interleaving of any number of workers,
    rows are never removed and the copy row, once present, stays present, wanted, and healthy or suspect -/
theorem C04_race_monotone (s : IState) (sched : List Nat) :
    let s' := irun s sched
    (s.acq = true → s'.acq = true) ∧ (s.file = true → s'.file = true) ∧
    (tracked s.copy = true → (∃ w, s.copy = some (.Y, w) ∨ s.copy = some (.M, w)) →
        ∃ hs w, s'.copy = some (hs, w) ∧ (hs = .Y ∨ hs = .M)) := by
  intro s'
  obtain ⟨h1, h2, h3⟩ := irun_mono s sched
  refine ⟨h1, h2, fun _ hh => h3 ?_⟩
  obtain ⟨w, h | h⟩ := hh
  · exact ⟨.Y, w, h, .inl rfl⟩
  · exact ⟨.M, w, h, .inr rfl⟩

/-- **C04.4 (concurrent imports, outcome)** for every number of workers `n` and every schedule
    that lets each of them take its (at most four) steps: every worker finishes without an
    uncaught exception, every request is completed, and exactly one acquisition, one file and one
    copy row exist, the copy healthy or suspect and wanted -/
theorem C04_race_final (n : Nat) (c0 : Option (Has × Wants)) (sched : List Nat)
    (hfair : ∀ t, t < n → 4 ≤ sched.count t) :
    let s := irun (IState.init c0) sched
    (∀ t, t < n → (∃ d, s.pc t = .done d) ∧ s.completed t = true) ∧
    (0 < n → tracked c0 = false → s.acq = true ∧ s.file = true ∧ ∃ hs, s.copy = some (hs, .Y) ∧ (hs = .Y ∨ hs = .M)) := by
  intro s
  have hinv : IInv c0 s := (IInv.init c0).run sched
  have hdone : ∀ t, t < n → ∃ d, s.pc t = .done d := by
    intro t ht
    have hr := irun_rank (IState.init c0) sched t
    have hf := hfair t ht
    apply IPc.rank_ge_four
    show 4 ≤ ((irun (IState.init c0) sched).pc t).rank
    omega
  refine ⟨fun t ht => ?_, fun hn hc => ?_⟩
  · obtain ⟨d, hd⟩ := hdone t ht
    exact ⟨⟨d, hd⟩, hinv.done_completed t d hd⟩
  · obtain ⟨d, hd⟩ := hdone 0 hn
    rcases hinv.done_good 0 d hd with h | h
    · rw [hc] at h; exact absurd h (by decide)
    · exact h

-- non-vacuity
example : importStep ⟨true, false, false, true, false, false, .ok, true, false, false, none⟩
    = ⟨.success, true, true, true, some (.Y, .Y), true⟩ := by decide
example : (irun (IState.init none) [0, 1, 0, 1, 0, 1, 1, 0]).copy = some (.M, .Y) := by decide


/-! ## The recursive scan (`DefaultNodeIO.file_walk`) behind recursive import requests -/

/-- **C04.5 (scan is exact)** for every directory tree (any depth, any fan-out, symlinked directories included) the
    walk yields a path if and only if it names a regular, non-symlink file reached by descending through directory
    entries only: symlinks to files, fifos, sockets and dangling links are never handed to the importer, and no
    regular file below the walked directory is left out -/
theorem C04_walk_exact (pfx : List String) (t : FsNode) (p : List String) :
    p ∈ walkNode pfx t ↔ Reach pfx t p :=
  ⟨walkNode_reach pfx t p, reach_walkNode⟩

/-- **C04.5 (scan yields each file once)** the number of paths yielded equals the number of regular files in the tree:
    together with `C04_walk_exact` no file is yielded twice unless the directory listing itself repeats an entry -/
theorem C04_walk_once (pfx : List String) (t : FsNode) :
    (walkNode pfx t).length = leavesNode t := walkNode_length pfx t

/-- **C04.5 / C06 (scan stays below the walked path)** every yielded path extends the walked path component-wise -/
theorem C04_walk_confined (pfx : List String) (t : FsNode) (p : List String) (h : p ∈ walkNode pfx t) : pfx <+: p :=
  reach_prefix (walkNode_reach pfx t p h)

/-- **C04.5 (top-level dispatch of `file_walk`)** an absolute argument is refused; a missing path, a symlink to a
    file and a special file give nothing; a regular file gives itself; a directory (or link to one) gives the walk -/
theorem C04_fileWalk_top (pfx : List String) (top : WalkTop) :
    (fileWalk pfx top = none ↔ top = .absolute) ∧
    (∀ ps, fileWalk pfx top = some ps → ∀ p, p ∈ ps ↔ ∃ t, top = .at t ∧ Reach pfx t p) := by
  refine ⟨?_, ?_⟩
  · cases top with
    | absolute => simp [fileWalk]
    | missing => simp [fileWalk]
    | «at» t => cases t <;> simp [fileWalk]
  · intro ps h p
    cases top with
    | absolute => simp [fileWalk] at h
    | missing => simp [fileWalk] at h; subst h; simp
    | «at» t =>
      cases t with
      | file =>
        simp [fileWalk] at h; subst h
        constructor
        · intro hp; simp at hp; subst hp; exact ⟨.file, rfl, .file _⟩
        · rintro ⟨t, ht, hr⟩; cases ht; exact (C04_walk_exact pfx .file p).mpr hr
      | symFile =>
        simp [fileWalk] at h; subst h
        constructor
        · intro hp; simp at hp
        · rintro ⟨t, ht, hr⟩; cases ht; cases hr
      | other =>
        simp [fileWalk] at h; subst h
        constructor
        · intro hp; simp at hp
        · rintro ⟨t, ht, hr⟩; cases ht; cases hr
      | dir s cs =>
        simp [fileWalk] at h; subst h
        constructor
        · intro hp; exact ⟨.dir s cs, rfl, (C04_walk_exact pfx _ p).mp hp⟩
        · rintro ⟨t, ht, hr⟩; cases ht; exact (C04_walk_exact pfx _ p).mpr hr

-- non-vacuity: a tree with a nested file, a symlink to a file, a fifo and a symlinked directory
example : walkNode ["r"] (.dir false [("a", .file), ("l", .symFile), ("o", .other),
      ("d", .dir false [("b", .file)]), ("ld", .dir true [("c", .file), ("s", .symFile)])])
    = [["r", "a"], ["r", "d", "b"], ["r", "ld", "c"]] := by decide

end Alpen
