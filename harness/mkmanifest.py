#!/venv/bin/python
"""Regenerates MANIFEST.json from the table below (kept valid at all times)."""
import json, os
HERE = os.path.dirname(os.path.dirname(os.path.abspath(__file__)))
props = [json.loads(l) for l in open(os.path.join(HERE, "properties.jsonl"))]

NOTE_COMMON = ("Trusted: Lean 4.33 kernel + axioms {propext, Classical.choice, Quot.sound} only (audited every run); "
               "harness/extract.py; the correspondence harness. Modelled not verified: CPython, peewee/SQLite, POSIX, threading.")

CLAIMED = {
 "C06": dict(
    text=("Lean theorems for ALL strings: invalid_import_path (function translated from the Python source on every run) "
          "accepts exactly the canonical relative paths; accepted names equal their posixpath.normpath and stay strictly "
          "inside any normalised absolute root. Tie: translated function is the theorem's subject; hand model proved "
          "equivalent; exhaustive differential run of real code vs model vs property-text oracle; plus every mutating FS call of real "
          "multi-daemon histories observed by an audit hook: strictly inside a node root, roots/markers never removed, sentinel outside untouched."),
    note=NOTE_COMMON + " OS symlink resolution is outside the string theorems.",
    technique="Lean 4 proof over translated source function + exhaustive model/implementation correspondence",
    ref="DESIGN.md §4 C06"),
 "C01": dict(
    text=("Lean theorems over an index-level World model, for every history of operator commands, external faults and task steps in any "
          "interleaving (task-step granularity; one delete step per copy): an unlink by a delete step implies >= 2 healthy archive copies on "
          "other nodes in the index of that step; update_delete selects only unwanted, non-source copies; no other step changes the bytes of "
          "a copy recorded healthy; constants (3/2, archive_count filters) re-read from the source. PARTIAL w.r.t. statement-granular "
          "interleaving across daemons: count-read and unlink are not atomic (counter-example theorem C01_split_race, F-TOCTOU). Tie: real "
          "update_delete/delete_async/check/update_pull/search/pull_async on real indexes and directories, compared after every step."),
    note=NOTE_COMMON + " Task-step atomicity across daemons (DESIGN §4.1); storage_type read at task start.",
    technique="Lean 4 proof (invariant over histories) + step-wise model/implementation correspondence with unlink oracle",
    ref="DESIGN.md §4 C01"),
 "C02": dict(
    text=("Lean theorems over the World model: a pull completes the request only on a successful transfer, and then the destination holds the "
          "source's bytes and a healthy/wanted/ready copy row exists (same step = same transaction); every failure leaves the request "
          "pending, nothing at the destination path, no new healthy row, source flagged suspect exactly when it may be at fault; "
          "overwriting is reachable only through a destination group whose state is 'corrupt', which (theorem for groups of any size and any row order) "
          "means no copy of the group is healthy or awaiting a check. Tie: exhaustive grid source kind x transport/tool outcome x destination pre-state "
          "through the daemon's own decide->search->pull chain, random histories, multi-node group-state stage, DB fault at every statement of the pull task. "
          "Known finding F11: forced re-pull into a Transport group may overwrite a never-verified file on another node."),
    note=NOTE_COMMON + " Byte fidelity of rsync/bbcp is their exit-code/digest contract; Transport groups' node choice is modelled (C05); their forced re-pull placement is the known finding F11.",
    technique="Lean 4 proof (case analysis per transfer outcome) + route x outcome x pre-state correspondence and fault enumeration",
    ref="DESIGN.md §4 C02"),
 "C14": dict(
    text=("Lean theorems: for every history of dispatches and task ends by any path, reserved = factor x sizes of live pulls (never negative, "
          "no failing release, zero when idle); a pull is admitted only if not under-min, not at limit and factor x size fits net of "
          "reservations; factor read from the source (=2); counter-example for the pinned leak. Tie: real DefaultNodeIO.pull + real pull "
          "tasks ending by all seven paths (incl. DB errors) with _reserved_bytes read after every event."),
    note=NOTE_COMMON + " reserve/release are single critical sections on one mutex (sequential consistency assumed); KiB-exact space values.",
    technique="Lean 4 proof (invariant over event histories) + event-sequence correspondence",
    ref="DESIGN.md §4 C14"),
 "C03": dict(
    text=("Lean theorems for all observations/registrations: the check verdict is Y/X/N exactly per the rule (registered size none/0/n), "
          "the block/chunk loop of _md5sum_file feeds the hash exactly the content for every content and positive block/chunk size, "
          "accepted digests are stored as 32 lower-case hex digits of the same value. Tie: registrations made through the real CLI, real "
          "check_async on real files around block/chunk boundaries with damage, hashlib recorder, exhaustive validator strings."),
    note=NOTE_COMMON + " MD5 is a parameter (hashlib's incremental law assumed).",
    technique="Lean 4 proof (case analysis, induction over blocks) + differential correspondence through the real CLI and check task",
    ref="DESIGN.md §4 C03"),
 "C04": dict(
    text=("Lean theorems: an import registers something iff the path is under the root, not the root/marker, a regular non-symlink file "
          "resolving inside the root, not dot-named, not locked, and a detector returns a canonical proper-ancestor name (and registration "
          "is on or the rows exist); it then writes exactly the missing acquisition/file and one copy (M iff a wanted-absent row existed); "
          "every rejection changes nothing and completes the request except for locked files; idempotent; n workers at statement "
          "granularity under every schedule end with one acq/file/copy (Y or M), all requests completed, no exception. Tie: real "
          "update_import/import_file/_import_file on an adversarial tree x request forms x detector behaviours; 2-3 real threads "
          "preempted at every SQL statement. The recursive scan (file_walk) is modelled too: for trees of any depth it yields exactly the regular "
          "non-symlink files reached through directories, as many paths as files, all below the walked path; tie: real file_walk on "
          "random trees of every entry kind vs the Lean fileWalk."),
    note=NOTE_COMMON + " Row uniqueness is the database's unique indexes; os.scandir/DirEntry semantics (is_dir/is_file follow links) are modelled.",
    technique="Lean 4 proof (finite case analysis + small-step invariant for n workers) + differential correspondence incl. statement-level interleaving",
    ref="DESIGN.md §4 C04"),
 "C17": dict(
    text=("Lean theorems for check_then_update/check_if_from_stdin: the update pass runs iff no --check and (--force or (list not from stdin "
          "and confirmed)); transaction model all-or-nothing. Tie (the part no theorem can give): every mutating sub-command (24) with "
          "random and canonical flag combinations over random indexes through the real click CLI: refusals/check/declined/stdin leave all "
          "tables unchanged; an OperationalError at every statement index leaves the before- or the after-state."),
    note=NOTE_COMMON + " click's option parsing; that every write sits behind the decision is established by the enumeration, not by proof.",
    technique="Lean 4 proof of the decision logic + exhaustive statement-index fault enumeration on the real CLI",
    ref="DESIGN.md §4 C17"),
 "C18": dict(
    text=("Lean theorems: node clean (with/without size budget) updates exactly the documented set (budget = shortest id-ordered prefix "
          "reaching SIZE, copies at the goal counted), node verify / cancel forms select exactly the stated states, sync creates exactly the "
          "non-skipped non-pending requests; all idempotent; repeated sync adds nothing. Tie: real CLI run twice per case vs model vs a "
          "specification computed from the help text. Known findings: --days sign (F6), --now --size --target own group (F15)."),
    note=NOTE_COMMON + " Help text as specification; file-level filters (acq, list, targets, age) computed by the harness from the documentation.",
    technique="Lean 4 proof (loop = prefix specification, idempotence) + differential correspondence on the real CLI",
    ref="DESIGN.md §4 C18"),
 "C05": dict(
    text=("Lean theorems over the World/daemon model: PROGRESS (a wanted suspect copy gets a verdict; a released copy is deleted unless the "
          "deletion-safety count holds it back; a request that is not blocked is cancelled terminally or dispatched; a dispatched, honestly "
          "transferred request completes) and CLASSIFICATION (if no first-level step of an update pass changes index or storage, every "
          "pending item of that host - the first pending request per file and group, the one the code examines - is blocked for one of the "
          "documented reasons or handed to the transport); Transport groups: a request is handed to the fullest eligible node iff the source "
          "is local and some node can take the file. PARTIAL: the bound on the "
          "number of iterations is measured by the tie (rounds-to-fixed-point histogram), not proved (rule cascades). Tie: random two-host "
          "histories on the real daemons followed by fault-free rounds to a fixed point; residue classified by an oracle written from "
          "the property's list; daemons persist across passes; worlds with multi-node groups and Lustre-HSM nodes (scripted lfs) plus 36 enumerated "
          "HSM fault scenarios; real TransportGroupIO.pull_force vs the model. Known finding F16 (shadowed duplicate request)."),
    note=NOTE_COMMON + " Transport and LustreHSM *group* classes are not in the histories (their node choice / node tasks are tied separately).",
    technique="Lean 4 proof (progress + fixed-point classification) + convergence runs of the real daemons with residue oracle",
    ref="DESIGN.md §4 C05"),
 "C07": dict(
    text=("Lean theorems: every first-level step an update pass creates (iterateOps) acts on a node that is local, active and carries its "
          "marker; a step changes storage only on the node it acts on; rows of other nodes change only by has:=M (source suspect) or "
          "wants:=N (autoclean), never created/removed; a transfer is decided only when exactly one node of the group is usable on this "
          "host; an init task is queued only for a local active unmarked node with a pending request naming it. Tie: two real persistent "
          "daemons on one index with activation flips, host reassignment, marker changes, disk swaps (56 enumerated scenarios), init requests, "
          "auto-import watchers (fake observer) and two-worker passes; every tree and copy-row change attributed to the acting host; "
          "queued tasks, transfers and init tasks vs iterateOps / initTasks."),
    note=NOTE_COMMON + " A task already queued when an operator deactivates its node still runs (effects attributed to the state read at dispatch).",
    technique="Lean 4 proof (dispatch targets + frame conditions) + attributed multi-daemon histories",
    ref="DESIGN.md §4 C07"),
 "C08": dict(
    text=("Lean theorems: unique (file,node), unique ids preserved by every step; index/storage agreement (healthy untracked copy => bytes "
          "with the registered length) preserved over every history with tracked damage (faults/overrides add, a completed check clears, an "
          "unverified transfer from a tainted source taints); removed-by-daemon => gone; completed => copy recorded in the destination "
          "group; rows never removed. Tie: the same real multi-daemon histories with the invariants evaluated on the real index and trees "
          "after every step."),
    note=NOTE_COMMON + " Uniqueness/enum legality rest on the SQL engine and EnumField; timestamps checked only by the tie.",
    technique="Lean 4 proof (inductive invariant with tracked-damage set) + invariant evaluation on real histories",
    ref="DESIGN.md §4 C08"),
 "C09": dict(
    text=("Lean theorems: every prefix of the primitive effects of a pull keeps the crash invariant (wanted healthy copies have bytes; "
          "completed requests have a destination copy), the index part is all-or-nothing around the transaction; every prefix of a delete "
          "of an unwanted copy keeps it and the retry completes; check/import write one row without touching storage. Tie: the real tasks "
          "killed (fork + _exit) before EVERY primitive (non-SELECT statement, mutating FS call, tool start), invariant checked on the "
          "real state, daemon restarted to a fixed point and compared with an uninterrupted run. Known finding F17b (rules not replayed)."),
    note=NOTE_COMMON + " Crash = process death; power loss / fsync / SQLite journal durability outside.",
    technique="Lean 4 proof over effect prefixes + exhaustive crash-point injection on the real tasks",
    ref="DESIGN.md §4 C09"),
 "C10": dict(
    text=("Lean theorems over an abstract Task/Worker model for every fault plan (DB error in the body or in any subset of clean-ups): "
          "every pending clean-up starts exactly once, task_done exactly once, no global abort, requeue iff requested, worker exits to be "
          "respawned; pool check restores every slot; the retry mixin attempts at most twice and retries exactly when allowed. Tie: real "
          "Worker.run/Task/WorkerPool/RetryOperationalError executed for every fault position of small shapes and random tasks."),
    note=NOTE_COMMON + " URL databases cannot be opened with peewee 4.5.1 (F8); retry checked over a scripted base class.",
    technique="Lean 4 proof over fault plans + exhaustive fault-position correspondence on the real worker",
    ref="DESIGN.md §4 C10"),
 "C11": dict(
    text=("Lean theorems for every operation sequence over any key set (any number of threads; one op = one critical section): the queue's "
          "redundant counters equal the truth (QInv), delivered ⊎ queued ⊎ deferred ⊎ discarded = accepted (exactly once), per-FIFO "
          "order, truthful sizes, idle iff nothing queued/running, join leaves only when drained and is never left un-notified. Tie: real "
          "queue under a deterministic scheduler, every private field compared after every critical section."),
    note=NOTE_COMMON + " threading.Lock/Condition semantics as implemented by the cooperative shim; OS scheduler fairness.",
    technique="Lean 4 proof (inductive invariant with ghost history) + schedule-controlled correspondence",
    ref="DESIGN.md §4 C11"),
 "C12": dict(
    text=("Lean theorems: exclusive items are delivered only into an idle FIFO and lock it until task_done; the chosen FIFO is eligible with "
          "minimal in-progress count; deferrals are promoted exactly when due; a yielding task is re-put with the same key/exclusivity; "
          "clean-ups run exactly once after the final step. Tie: real queue under the scheduler + real Task/Worker runs."),
    note=NOTE_COMMON + " virtual clock replaces time.monotonic; Python set iteration order is an observed input.",
    technique="Lean 4 proof + schedule-controlled correspondence",
    ref="DESIGN.md §4 C12"),
 "C13": dict(
    text=("Lean theorems for any number of threads and every schedule of critical sections: up/down never coexist, re-entrancy, opposite "
          "request and foreign release rejected, parked un-notified threads are genuinely blocked (no lost wake-up), some thread can always "
          "step (no deadlock), expired timed waiters return. Counter-example theorem for the pinned two-lock structure. Tie: real "
          "UpDownLock under the deterministic scheduler (exhaustive binary schedules for the F3 pair, random programs)."),
    note=NOTE_COMMON + " mutex/condition semantics of the shim; fairness of the OS scheduler.",
    technique="Lean 4 proof (inductive invariant over critical sections) + schedule-controlled correspondence",
    ref="DESIGN.md §4 C13"),
 "C15": dict(
    text=("Lean theorems for every copy table, shortfall, pending set and node type: no removable copy is selected without pressure, "
          "selection is an id-ordered sub-list, a removable copy is selected iff the shortfall remaining after the copies queued before it "
          "is positive, released non-pending copies are all selected, batches concatenate to the selection. Tie: real update_delete."),
    note=NOTE_COMMON + " space values restricted to KiB-exact floats.",
    technique="Lean 4 proof (induction over the ordered pass) + differential correspondence on SQLite",
    ref="DESIGN.md §4 C15"),
 "C16": dict(
    text=("Lean theorems for every rule graph/copy table: the requests created are exactly one per firing autosync rule, the released copies "
          "exactly those of firing autoclean rules, self-loops ignored, everything else unchanged; counter-example for the pinned code. "
          "Tie: real post_add on SQLite over random graphs."),
    note=NOTE_COMMON,
    technique="Lean 4 proof (exact characterisation + frame) + differential correspondence on SQLite",
    ref="DESIGN.md §4 C16"),
 "C19": dict(
    text=("Lean theorems for all tables, cursors, batch sizes k and all sequences of changing tables: each QueryWalker.get "
          "returns exactly k ids from the table continuing at the cursor and wrapping; an id present throughout is returned "
          "within floor((N-1)/k)+1 <= ceil(N/k)+1 calls (N = distinct ids seen in the window); age filter exact. Tie: "
          "real QueryWalker on SQLite with churn and real run_auto_verify (virtual clock) vs the model, plus a cyclic-order oracle."),
    note=NOTE_COMMON + " SQL ORDER BY/LIMIT semantics trusted; time zone UTC (last_update.timestamp() on naive values).",
    technique="Lean 4 proof (induction over call sequences) + differential correspondence on SQLite",
    ref="DESIGN.md §4 C19"),
 "C20": dict(
    text=("Lean theorems: for every path (incl. paths containing the state keywords) the parsed HSM state depends only on the flags/action "
          "after the path prefix; a restore-wait that ends leaves no bookkeeping for the file, for every answer sequence; ready only after a "
          "resident answer; open only when resident; release selects only restored copies in order and just until the headroom is met; "
          "refresh sets ready = reported residency. Counter-example for the pinned hsm_restoring (F4). Tie: real LFS parsers with scripted "
          "run_command, real LustreHSMNodeIO (_restore_wait, release_files, idle state check, open) with a scripted LFS object."),
    note=NOTE_COMMON + " Real lfs/HSM behaviour is a parameter; residency is what the index/lfs report; multi-iteration HSM histories are exercised only at the level of these steps.",
    technique="Lean 4 proof (string lemma for all paths, bookkeeping invariant over answer sequences) + differential correspondence",
    ref="DESIGN.md §4 C20"),
}

checks = []
for p in props:
    pid = p["id"]
    if pid in CLAIMED:
        c = CLAIMED[pid]
        checks.append({
            "property_id": pid,
            "quick_cmd": f"./check {pid} --tier quick",
            "thorough_cmd": f"./check {pid} --tier thorough",
            "evidence_file": f"/verif/evidence/{pid}.json",
            "replay_cmd_template": f"./check {pid} --replay {{path}}",
            "engine": "lean4-proof+correspondence",
            "level_claimed": {"category": "proof", "text": c["text"], "design_ref": c["ref"]},
            "level_note": c["note"],
            "technique": c["technique"],
        })
na = [{"property_id": p["id"], "reason": "check not built yet (build in progress; see DESIGN.md §10 order)"}
      for p in props if p["id"] not in CLAIMED]
man = {
 "version": 1,
 "setup_cmd": "./setup.sh",
 "hooks": {"guard": "ALPENHORN_VERIF", "enable": "checks set ALPENHORN_VERIF=1 in their own process; instrumentation is by rebinding module globals from the harness",
           "baseline_off_cmd": "cd /repo && /venv/bin/python -m pytest -ra -q -p no:cacheprovider --timeout=900 --continue-on-collection-errors",
           "source_commits": [], "add_only": True},
 "engines": [{"name": "lean4-proof+correspondence", "path": "/verif/lean", "serves_properties": sorted(CLAIMED),
              "kind_free_text": "Lean 4 theorems about executable models + differential correspondence against the real Python"}],
 "checks": checks,
 "not_applicable": na,
 "notes": "See DESIGN.md. Every claimed property is decided by Lean theorems + a model/implementation correspondence run on each invocation.",
}
json.dump(man, open(os.path.join(HERE, "MANIFEST.json"), "w"), indent=1)
print("claimed:", sorted(CLAIMED))
