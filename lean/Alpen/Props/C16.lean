import Alpen.Model.PostAdd
import Alpen.Lemmas.PostAdd
/-!
# C16 — autosync and autoclean rules fire exactly as configured

"Whenever a file newly becomes present on a node through import or transfer, exactly one new
transfer request is created for each autosync rule from that node to another group that
lacks a healthy copy, and each healthy, wanted copy on the source node of an autoclean rule
into the receiving group is released. Rules whose source node belongs to the destination
group (self-loops) are ignored, and all other copies and requests are left unchanged."
-/
namespace Alpen

/-- `state_on_node` priority: Y > M > X > N -/
theorem C16_stateOnNode_spec (nodes : List PNode) (copies : List PCopy) (g f : Nat) :
    let cs := copiesInGroup nodes copies g f
    (stateOnNode nodes copies g f = .Y ↔ ∃ c ∈ cs, c.has = .Y) ∧
    (stateOnNode nodes copies g f = .M ↔ (∀ c ∈ cs, c.has ≠ .Y) ∧ ∃ c ∈ cs, c.has = .M) ∧
    (stateOnNode nodes copies g f = .X ↔ (∀ c ∈ cs, c.has ≠ .Y ∧ c.has ≠ .M) ∧ ∃ c ∈ cs, c.has = .X) ∧
    (stateOnNode nodes copies g f = .N ↔ ∀ c ∈ cs, c.has = .N) := by
  intro cs
  exact statePriority_spec cs _ rfl

/-- **C16 (autosync, exactness)** a request `r` is created iff it is `(file, node, e.groupTo)`
    for an autosync rule `e` out of `node` that is not a self-loop and whose destination group
    has no healthy copy of the file. -/
theorem C16_requests_iff (nodes : List PNode) (edges : List PEdge) (copies : List PCopy)
    (node file : Nat) (r : PReq) :
    r ∈ (postAdd nodes edges copies node file).1 ↔
      ∃ e ∈ edges, e.nodeFrom = node ∧ e.autosync = true ∧ selfLoop nodes e = false ∧
        stateOnNode nodes copies e.groupTo file ≠ .Y ∧ r = ⟨file, node, e.groupTo⟩ := by
  unfold postAdd
  simp only [List.mem_map, mem_syncEdges]
  constructor
  · rintro ⟨e, ⟨he, h1, h2, h3, h4⟩, rfl⟩
    exact ⟨e, he, h1, h2, h3, h4, rfl⟩
  · rintro ⟨e, he, h1, h2, h3, h4, rfl⟩
    exact ⟨e, ⟨he, h1, h2, h3, h4⟩, rfl⟩

/-- **C16 (exactly one per rule)** with the unique `(node_from, group_to)` index, no request is
    created twice. -/
theorem C16_requests_nodup (nodes : List PNode) (edges : List PEdge) (copies : List PCopy)
    (node file : Nat)
    (huniq : edges.Pairwise (fun a b => ¬ (a.nodeFrom = b.nodeFrom ∧ a.groupTo = b.groupTo))) :
    (postAdd nodes edges copies node file).1.Nodup ∧
    (postAdd nodes edges copies node file).1.length =
      (edges.filter (fun e => e.nodeFrom == node && e.autosync && !selfLoop nodes e &&
          stateOnNode nodes copies e.groupTo file != .Y)).length := by
  unfold postAdd
  simp only
  rw [syncEdges_eq]
  refine ⟨?_, List.length_map _⟩
  unfold List.Nodup
  rw [List.pairwise_map, List.pairwise_filter]
  refine huniq.imp ?_
  intro a b hab ha hb heq
  simp only [Bool.and_eq_true, beq_iff_eq] at ha hb
  apply hab
  injection heq with _ _ hg
  exact ⟨ha.1.1.1.trans hb.1.1.1.symm, hg⟩

/-- **C16 (autoclean + frame)** the copy table keeps its shape; a copy changes iff it is a
    healthy, wanted copy of the file on the source node of a non-self-loop autoclean rule into
    the receiving group, and then only `wants` changes, to `N`; every other copy is unchanged. -/
theorem C16_copies_exact (nodes : List PNode) (edges : List PEdge) (copies : List PCopy)
    (node file : Nat) :
    let out := (postAdd nodes edges copies node file).2
    out.length = copies.length ∧
    ∀ i (h : i < copies.length) (h' : i < out.length),
      let c := copies[i]
      let c' := out[i]
      let fires := c.file = file ∧ c.has = .Y ∧ c.wants = .Y ∧
        ∃ e ∈ edges, some e.groupTo = groupOf nodes node ∧ e.autoclean = true ∧
          selfLoop nodes e = false ∧ e.nodeFrom ≠ node ∧ e.nodeFrom = c.node
      (fires → c' = { c with wants := .N }) ∧ (¬ fires → c' = c) := by
  intro out
  have hout : out = copies.map
      (releaseIf ((cleanEdges nodes edges node).map (·.nodeFrom)) file) := rfl
  refine ⟨by rw [hout, List.length_map], ?_⟩
  intro i h h' c c' fires
  have hc' : c' = releaseIf ((cleanEdges nodes edges node).map (·.nodeFrom)) file c := by
    simp only [c', c, hout, List.getElem_map]
  have hf : fires ↔ (c.file = file ∧ c.has = .Y ∧ c.wants = .Y ∧
      ((cleanEdges nodes edges node).map (·.nodeFrom)).contains c.node = true) := by
    rw [mem_cleanSrcs]
  constructor
  · intro hfires
    rw [hc']
    exact releaseIf_fires _ _ _ (hf.mp hfires)
  · intro hn
    rw [hc']
    exact releaseIf_skips _ _ _ (fun hh => hn (hf.mpr hh))

/-- **C16 (self-loops ignored)** if every rule is a self-loop, nothing happens. -/
theorem C16_self_loops_ignored (nodes : List PNode) (edges : List PEdge) (copies : List PCopy)
    (node file : Nat) (h : ∀ e ∈ edges, selfLoop nodes e = true) :
    postAdd nodes edges copies node file = ([], copies) := by
  have h1 : syncEdges nodes edges copies node file = [] := by
    apply List.eq_nil_iff_forall_not_mem.mpr
    intro e he
    have hm := (mem_syncEdges nodes edges copies node file e).mp he
    have := h e hm.1
    rw [hm.2.2.2.1] at this
    cases this
  have h2 : cleanEdges nodes edges node = [] := by
    unfold cleanEdges
    apply List.filter_eq_nil_iff.mpr
    intro e he
    simp [h e he]
  have h3 : ∀ c, releaseIf [] file c = c := fun c => releaseIf_skips _ _ _ (by simp)
  unfold postAdd
  simp only [h1, h2, List.map_nil]
  congr 1
  rw [List.map_congr_left (g := id) (fun c _ => h3 c), List.map_id]

/-- the pinned code (`node_from != node` only) fires a self-loop rule on a sibling node:
    counter-example kept as a theorem (finding F7). -/
theorem C16_legacy_selfloop_fires :
    ∃ nodes edges copies node file,
      (∀ e ∈ edges, selfLoop nodes e = true) ∧
      postAddLegacy nodes edges copies node file ≠ ([], copies) := by
  exact ⟨[⟨1, 1⟩, ⟨2, 1⟩], [⟨1, 2, 1, false, true⟩], [⟨1, 7, 2, .Y, .Y⟩], 1, 7,
    by decide, by decide⟩

-- non-vacuity
example : postAdd [⟨1, 1⟩, ⟨2, 2⟩, ⟨3, 3⟩] [⟨1, 1, 2, true, false⟩, ⟨2, 3, 1, false, true⟩]
    [⟨1, 7, 1, .Y, .Y⟩, ⟨2, 7, 3, .Y, .Y⟩] 1 7
    = ([⟨7, 1, 2⟩], [⟨1, 7, 1, .Y, .Y⟩, ⟨2, 7, 3, .Y, .N⟩]) := by decide

end Alpen
